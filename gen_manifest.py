#!/usr/bin/env python3
"""Regenerate MANIFEST.json from the property modules (so that claims and checks cannot drift apart)."""
import json, os, sys
HERE = os.path.dirname(os.path.abspath(__file__))
sys.path.insert(0, HERE)

TECH = {
    "C01": "bounded symbolic execution (CrossHair+z3) of parse/render/parseInline/renderInline on scaffold+free-character documents; assertion: no exception escapes",
    "C02": "bounded symbolic execution of the pipeline; bracket/level/flag/children oracle + SyntaxTreeNode on the symbolic stream",
    "C03": "bounded symbolic execution of the block parser; map range/nesting/order/content/coverage oracle against the symbolic source",
    "C04": "bounded symbolic execution of escapeHtml, parser+RendererHTML on output-slot scaffolds and free documents; strict HTML scanner over symbolic output",
    "C05": "SMT (z3 regex/string theory) encoding of validateLink generated from the live AST and re.Pattern objects, unbounded length, cross-checked with a second solver build; plus bounded symbolic execution of normalizeLink and the four URL producers",
    "C06": "bounded symbolic execution, metamorphic: D vs quote/list wrapping of D on the real block parser",
    "C07": "bounded symbolic execution, metamorphic: blocks(A+blank+B) vs blocks(A)++shift(blocks(B)), side conditions decided by the real parser",
    "C08": "bounded symbolic execution of the block parser and backtick rule; verbatim-content/markup oracle against the symbolic source",
    "C09": "bounded symbolic execution of the pipeline on ctx(esc(t)) for symbolic t in 13 contexts; expected = renderer frame around escapeHtml(t); character references with one symbolic digit",
    "C10": "bounded symbolic execution under pairs of configurations (rule off / extension on / definitions options / three option routes)",
    "C11": "inductive step by bounded symbolic execution of one Ruler operation from an arbitrary coherent ruler state + reference model; short symbolic histories; MarkdownIt facade",
    "C12": "bounded symbolic histories (solver-chosen API call sequences on two live instances) compared with fresh instances",
    "C13": "AST->generator transformation of Ruler.getRules/__compile__ with solver-chosen bounded-pre-emption schedules (confirmed with real threads); symbolic re-entrancy point; frame condition",
    "C14": "fault injection with a solver-chosen crash point (callback x invocation index x exception type) by bounded symbolic execution; twin-instance comparison",
    "C15": "bounded symbolic execution: as_dict/from_dict round trip, SyntaxTreeNode round trip and link consistency, double render, on symbolic streams and symbolic token fields",
    "C16": "bounded symbolic execution: env seeded by parsing R vs R prepended; definition bookkeeping; reference form vs inline form (labels from a concrete menu)",
    "C17": "bounded symbolic execution: normalize vs char-loop reference; LF/CRLF/CR and NUL metamorphic runs; tab vs column-exact space twins on the block parser",
    "C18": "bounded symbolic execution: parseInline vs single paragraph; inline fragments across five block contexts; renderer-only options symbolic",
    "C19": "bounded symbolic execution of the core chain with typographer off/on and symbolic quote strings; shape/non-text identity and quote-alignment oracle",
}
NOTE = ("Trusted base: CPython 3.12, z3 5.1.0, CrossHair 0.0.110's symbolic models of str/re/list/dict (every explored path's concrete representative is re-run natively "
        "and must agree in verdict and observable, otherwise the job is inconclusive), the five engine patches of DESIGN.md 10.4, the oracles in vcheck/oracles and vcheck/props (calibrated natively on the repo's "
        "own fixtures). Bounded: holds for every value of the free variables inside the stated bound; says nothing outside it.")


def main():
    from vcheck import props
    checks = []
    for i in range(1, 20):
        pid = f"C{i:02d}"
        mod = props.module(pid)
        checks.append({
            "property_id": pid,
            "quick_cmd": f"./check {pid} --tier quick",
            "thorough_cmd": f"./check {pid} --tier thorough",
            "evidence_file": f"/verif/evidence/{pid}.json",
            "replay_cmd_template": "./check replay {path}",
            "engine": "E1 CrossHair+z3" + (" + E2 z3 SMT-LIB" if pid == "C05" else "") + (" + E3 AST->generator scheduler" if pid == "C13" else ""),
            "level_claimed": {
                "category": "model_checking",
                "text": ("Bounded symbolic model checking of the real code: within the bound stated in the evidence file (free characters, scaffolds, histories, "
                         "crash points, schedules) every feasible path is exhausted by CrossHair/z3 and the property oracle holds on each; a job that is not "
                         "exhausted is reported inconclusive and the check does not pass. " + mod.BOUNDS.get("quick", "")),
                "design_ref": f"DESIGN.md section 5 ({pid})",
            },
            "level_note": NOTE + " Outside the claim: " + getattr(mod, "OUTSIDE", ""),
            "technique": TECH[pid],
        })
    man = {
        "version": 1,
        "setup_cmd": "./setup.sh",
        "hooks": {
            "guard": "MARKDOWN_IT_PY_VERIF",
            "enable": "no source hooks are needed: harnesses drive the public API and module attributes of /repo as it is",
            "baseline_off_cmd": "cd /repo && /venv/bin/python -m pytest -ra -q -p no:cacheprovider --timeout=900 --continue-on-collection-errors",
            "source_commits": [],
            "add_only": True,
        },
        "engines": [
            {"name": "E1", "path": "vcheck/engine_ch.py", "serves_properties": [f"C{i:02d}" for i in range(1, 20)],
             "kind_free_text": "CrossHair 0.0.110 as a library: per-path symbolic execution of the real Python modules with z3; native re-run of every path"},
            {"name": "E2", "path": "vcheck/engine_smt.py", "serves_properties": ["C05"],
             "kind_free_text": "AST + live re.Pattern -> z3 string/regex constraints, SMT-LIB2 dump cross-checked with /usr/bin/z3 4.8.12 and cvc5"},
            {"name": "E3", "path": "vcheck/engine_sched.py", "serves_properties": ["C13"],
             "kind_free_text": "AST -> generator transformation of Ruler methods; solver-chosen schedules explored by E1; real-thread confirmation"},
        ],
        "checks": checks,
        "not_applicable": [
            {"property_id": "C20",
             "reason": "asymptotic cost statement about inputs of 10^3-10^5 characters measured by a profile count; bounded symbolic execution reaches documents with <= 5 free "
                       "characters on <= 40-character scaffolds, where O(n) and O(n^2) cannot be separated, and input-length-dependent loops are the technique's stated weak target; "
                       "the only sub-claim in reach (nesting beyond maxNesting is cut off) is exercised inside C01/C02 with symbolic maxNesting and is not claimed under C20"},
        ],
        "notes": "See DESIGN.md. Exit codes: 0 held / 1 replayed violation not in known_findings.json / 2 harness error or inconclusive core job (never reported as a pass).",
    }
    with open(os.path.join(HERE, "MANIFEST.json"), "w") as f:
        json.dump(man, f, indent=1)
    print("wrote MANIFEST.json with", len(checks), "checks")


main()
