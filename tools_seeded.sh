#!/bin/sh
# Development aid: run the owning property's check against each seeded change in a scratch worktree (VERIF_REPO),
# leaving /repo untouched.   tools_seeded.sh <tier> <seed-dir-name>...
# Results are appended to /verif/seeded/RESULTS.tsv
tier=$1; shift
cd /verif
WT=/tmp/wt-seeded
git -C /repo worktree remove --force $WT 2>/dev/null
git -C /repo worktree add -q --detach $WT HEAD || exit 2
for n in "$@"; do
  d=/verif/seeded/$n
  prop=$(python3 -c "import json;print(json.load(open('$d/meta.json'))['breaks_property'])")
  git -C $WT checkout -q -- .
  if ! git -C $WT apply $d/patch.diff; then echo "$n APPLY-FAIL" >> /verif/seeded/RESULTS.tsv; continue; fi
  s=$(date +%s)
  VERIF_REPO=$WT VERIF_FAILFAST=1 ./check $prop --tier $tier > /tmp/seedrun-$n.log 2>&1
  rc=$?
  e=$(date +%s)
  v=$(grep -c '^VIOLATION' /tmp/seedrun-$n.log)
  first=$(grep -m1 -A1 '^VIOLATION' /tmp/seedrun-$n.log | tail -1 | cut -c1-200)
  printf '%s\t%s\t%s\trc=%s\tviolations=%s\t%ss\t%s\n' "$n" "$prop" "$tier" "$rc" "$v" "$((e-s))" "$first" >> /verif/seeded/RESULTS.tsv
done
git -C /repo worktree remove --force $WT
