#!/bin/sh
# Build the overlay venv /verif/.venv on top of /venv (offline).  Idempotent.
set -e
HERE="$(cd "$(dirname "$0")" && pwd)"
V="$HERE/.venv"
if [ -x "$V/bin/python" ] && "$V/bin/python" -c "import crosshair, z3, markdown_it" 2>/dev/null; then
    exit 0
fi
rm -rf "$V"
/venv/bin/python -m venv "$V"
SP="$("$V/bin/python" -c 'import sysconfig; print(sysconfig.get_paths()["purelib"])')"
printf '%s\n' "import site; site.addsitedir('/venv/lib/python3.12/site-packages')" > "$SP/_verif_overlay.pth"
PIP_NO_INDEX=1 "$V/bin/pip" install --quiet --no-index --find-links /opt/veriftools/wheels crosshair-tool z3-solver >/dev/null
# cvc5 is optional (second opinion for the E2 kernel)
PIP_NO_INDEX=1 "$V/bin/pip" install --quiet --no-index --find-links /opt/veriftools/wheels cvc5 >/dev/null 2>&1 || true
"$V/bin/python" -c "import crosshair, z3, markdown_it; print('overlay ok', crosshair.__version__, z3.get_version_string(), markdown_it.__file__)"
