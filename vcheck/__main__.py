from __future__ import annotations

import argparse
import os
import sys


def main():
    if len(sys.argv) >= 2 and sys.argv[1] == "replay":
        from .native import replay

        sys.exit(replay(sys.argv[2]))
    ap = argparse.ArgumentParser()
    ap.add_argument("prop")
    ap.add_argument("--tier", default=os.environ.get("VERIF_TIER", "quick"), choices=["quick", "thorough"])
    a = ap.parse_args()
    seed = int(os.environ.get("VERIF_SEED", "0") or 0)
    from .runner import run_check

    sys.exit(run_check(a.prop.upper(), a.tier, seed))


main()
