"""Native (no CrossHair) re-run of recorded paths / replay files against /repo.

    python -m vcheck.native validate <result.json>   -> rewrites result with native verdicts
    python -m vcheck.native replay <replay.json>     -> prints records, exit 1 if violated
"""
from __future__ import annotations

import json
import sys
import traceback

from . import props
from .engine_ch import digest
from .findings import load_known, split_known


def run_native(prop: str, harness: str, params: dict, values: dict):
    h = props.get_harness(prop, harness)
    if getattr(h, "prepare", None):
        h.prepare(params)
    return h.run(params, values)


def validate(path: str) -> None:
    assert "crosshair" not in sys.modules
    with open(path) as f:
        res = json.load(f)
    prop, harness, params = res["prop"], res["harness"], res.get("params", {})
    known = load_known(prop)
    ok = 0
    mismatches = []
    for p in res["paths"]:
        try:
            records, obs = run_native(prop, harness, params, p["values"])
            nat = {"records": records, "obs": digest(obs)}
        except Exception as e:  # the harness itself failed natively
            nat = {"records": [{"key": "native-harness-exception", "detail": repr(e),
                                "tb": traceback.format_exc()[-1500:]}], "obs": "error"}
        listed, unlisted = split_known(nat["records"], known)
        p["native_unlisted"] = len(unlisted)
        same = (json.dumps(nat["records"], sort_keys=True, default=str)
                == json.dumps(p["records"], sort_keys=True, default=str)) and nat["obs"] == p["obs"]
        if same:
            ok += 1
        else:
            mismatches.append({"values": p["values"], "symbolic": {"records": p["records"], "obs": p["obs"]},
                               "native": nat})
            p["native_records"] = nat["records"]
    res["native_validated"] = ok
    res["native_mismatches"] = mismatches[:20]
    res["n_native_mismatches"] = len(mismatches)
    assert "crosshair" not in sys.modules, "native validation must not load crosshair"
    with open(path, "w") as f:
        json.dump(res, f)


def replay(path: str) -> int:
    with open(path) as f:
        rp = json.load(f)
    records, obs = run_native(rp["prop"], rp["harness"], rp.get("params", {}), rp["values"])
    known = load_known(rp["prop"])
    listed, unlisted = split_known(records, known)
    print(json.dumps({"records": records, "listed": len(listed), "unlisted": len(unlisted)},
                     indent=1, default=str))
    assert "crosshair" not in sys.modules
    return 1 if unlisted else 0


if __name__ == "__main__":
    if sys.argv[1] == "validate":
        validate(sys.argv[2])
    elif sys.argv[1] == "replay":
        sys.exit(replay(sys.argv[2]))
