"""known_findings.json: committed, read-only at run time.

{"findings": [{"property": "C03", "key": "<record key>", "match": {<record field>: <value>, ...},
               "reproducer": {...}, "what": "<one line>"}],
 "fixed":    [{"property": ..., "commit": ..., "what": ...}]}

A violation record is *listed* iff some finding of the same property has the same key and
every field named in its "match" equals the record's field.  "fixed" entries suppress
nothing.
"""
from __future__ import annotations

import json
import os

HERE = os.path.dirname(os.path.dirname(os.path.abspath(__file__)))
PATH = os.path.join(HERE, "known_findings.json")


def load_all() -> dict:
    if not os.path.exists(PATH):
        return {"findings": [], "fixed": []}
    with open(PATH) as f:
        return json.load(f)


def load_known(prop: str) -> list:
    return [f for f in load_all().get("findings", []) if f.get("property") == prop]


def is_listed(rec: dict, known: list) -> dict | None:
    for f in known:
        if f.get("key") != rec.get("key"):
            continue
        if all(rec.get(k) == v for k, v in f.get("match", {}).items()):
            return f
    return None


def split_known(records, known, params=None, values=None):
    listed, unlisted = [], []
    for r in records or []:
        (listed if is_listed(r, known) else unlisted).append(r)
    return listed, unlisted
