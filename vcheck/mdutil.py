"""Helpers shared by the property harnesses: instances, units, documents, token views."""
from __future__ import annotations

import json

from .engine_ch import Free
from .sym import no_tracing

# ----------------------------------------------------------------------------- instances

_MD_CACHE: dict = {}

WARM_DOC = (
    "# h *e* **s** `c` [l](http://x.y/ä?b=1 \"t\") ![i](/u) <http://a.b> &amp; \\* a\\\nb\n\n"
    "> q\n\n- a\n- b\n\n1. x\n\n```py\nc\n```\n\n    code\n\n---\n\n<div>\nh\n</div>\n\n"
    "a | b\n--|--\n1 | 2\n\n~~s~~ \"q\" 'q' (c) ... -- +-\n\n[r]: /u 't'\n\n[r] ![r] [r][]\n\nT\n=\n"
)


def cfg_key(cfg: dict) -> str:
    return json.dumps(cfg, sort_keys=True)


def build_md(cfg: dict):
    """A fresh MarkdownIt for cfg = {preset, options, enable, disable} (built natively)."""
    from markdown_it import MarkdownIt

    with no_tracing():
        md = MarkdownIt(cfg.get("preset", "commonmark"), dict(cfg.get("options", {})))
        if cfg.get("enable"):
            md.enable(list(cfg["enable"]))
        if cfg.get("disable"):
            md.disable(list(cfg["disable"]))
        return md


def warm(md):
    with no_tracing():
        try:
            md.render(WARM_DOC)
            md.renderInline("a *b* [c](d)")
        except Exception:
            # a configuration under which the warm-up itself fails is a C01 matter; the
            # harness will meet it again on its own paths
            pass
    return md


def get_md(cfg: dict):
    """Shared, warmed, read-only instance for cfg."""
    k = cfg_key(cfg)
    md = _MD_CACHE.get(k)
    if md is None:
        md = _MD_CACHE[k] = warm(build_md(cfg))
    return md


# ----------------------------------------------------------------------------- documents


def build_doc(scaffold: list, values: dict) -> str:
    """scaffold = list of literal strings and {"v": name} holes."""
    out = ""
    for part in scaffold:
        if isinstance(part, str):
            out = out + part
        else:
            out = out + values[part["v"]]
    return out


def scaffold_frees(scaffold: list, spec: dict) -> list[Free]:
    """Free variables for the holes of a scaffold; spec maps name -> Free kwargs."""
    frees = []
    seen = set()
    for part in scaffold:
        if isinstance(part, dict) and part["v"] not in seen:
            seen.add(part["v"])
            frees.append(Free(name=part["v"], **spec.get(part["v"], {})))
    return frees


def free_doc(k: int, suffix: str = "", prefix: str = "") -> list:
    return ([prefix] if prefix else []) + [{"v": "abcdefgh"[i]} for i in range(k)] + ([suffix] if suffix else [])


# Partition of the first free character into disjoint classes (sharding).  Markdown-significant characters get a shard each
# (their jobs are the expensive ones), so that the longest job stays short.
_SINGLES = " \t\n>-+*#=`~_<|:[]()!&\\\"'"
SHARDS = [(f"chr{ord(c)}", "{v} == " + repr(c)) for c in _SINGLES] + [
    ("digit", "{v} in '0123456789'"),
    ("ascii-other", "ord({v}) < 128 and {v} not in " + repr(_SINGLES + "0123456789")),
    ("non-ascii", "ord({v}) >= 128"),
]
SHARDS_COARSE = [
    ("blank", "{v} in ' \\t\\n'"),
    ("container", "{v} in '>-+*'"),
    ("digit", "{v} in '0123456789'"),
    ("leaf", "{v} in '#=`~_<|:'"),
    ("inline", "{v} in " + repr("[]()!&\\\"'")),
    ("ascii-other", "ord({v}) < 128 and {v} not in " + repr(_SINGLES + "0123456789")),
    ("non-ascii", "ord({v}) >= 128"),
]


# Non-ASCII representatives used where a free character flows into URL percent-encoding (2-, 3- and 4-byte UTF-8,
# Unicode blanks and line separators, a case-folding special).
URL_NONASCII = "\u00e9\u20ac\U0001f600\u00a0\u0085\u2028\u00df"


def urlish(var: str) -> str:
    return f"ord({var}) < 128 or {var} in {URL_NONASCII!r}"


def shard_extras(var: str = "a", coarse: bool = False, exclude: str = ""):
    """Disjoint preconditions partitioning the domain of a free character; single-character shards that the variable's own
    `exclude` set rules out are dropped (their precondition would be unsatisfiable)."""
    out = []
    for name, expr in (SHARDS_COARSE if coarse else SHARDS):
        if name.startswith("chr") and chr(int(name[3:])) in exclude:
            continue
        out.append((name, expr.format(v=var)))
    return out


# ----------------------------------------------------------------------------- units


def block_parse(md, src: str, env: dict | None = None):
    """The block unit: real StateBlock + all enabled block rules (no normalize)."""
    tokens: list = []
    env = {} if env is None else env
    md.block.parse(src, md, env, tokens)
    return tokens, env


def tok_view(t, children: bool = True):
    """Plain-data view of a token (all fields)."""
    d = {
        "type": t.type, "tag": t.tag, "nesting": t.nesting, "level": t.level,
        "attrs": dict(t.attrs) if t.attrs else {}, "map": list(t.map) if t.map is not None else None,
        "content": t.content, "markup": t.markup, "info": t.info, "meta": t.meta,
        "block": t.block, "hidden": t.hidden,
    }
    if children:
        d["children"] = None if t.children is None else [tok_view(c) for c in t.children]
    return d


def stream_view(tokens, children: bool = True):
    return [tok_view(t, children) for t in tokens]


def exc_record(e: BaseException, where: str) -> dict:
    import traceback

    tb = traceback.extract_tb(e.__traceback__)
    site = ""
    for fr in reversed(tb):
        if "/markdown_it/" in fr.filename or "/mdurl/" in fr.filename:
            site = f"{fr.filename.split('/markdown_it/')[-1]}:{fr.name}"
            break
    return {"key": "exception", "exc": type(e).__name__, "site": site, "where": where}


def pipeline_nn(md, src: str, env: dict | None = None, inline_mode: bool = False):
    """ParserCore.process with the `normalize` rule skipped (src must be CR/NUL free, on which
    normalize is the identity; normalize itself is verified as its own unit in C17)."""
    from markdown_it.rules_core import normalize
    from markdown_it.rules_core.state_core import StateCore

    env = {} if env is None else env
    state = StateCore(src, md, env)
    state.inlineMode = inline_mode
    for rule in md.core.ruler.getRules(""):
        if rule is normalize:
            continue
        rule(state)
    return state.tokens, env


def render_nn(md, src: str, env: dict | None = None, inline_mode: bool = False) -> str:
    toks, env = pipeline_nn(md, src, env, inline_mode)
    return md.renderer.render(toks, md.options, env)


def deep_equal(a, b) -> bool:
    """Structural equality of plain-data views (dict/list/tuple/str/int/bool/None) that may contain symbolic strings.
    Runs outside CrossHair's tracer (native speed); strings are compared code point by code point and only pairs with a
    symbolic code point consult the solver."""
    with no_tracing():
        return _deq(a, b)


def _is_str(x):
    if type(x) is str:
        return True
    import sys

    m = sys.modules.get("crosshair.libimpl.builtinslib")
    return m is not None and isinstance(x, m.AnySymbolicStr)


def _deq(a, b) -> bool:
    from .symstr import cps, same

    if a is b:
        return True
    sa, sb = _is_str(a), _is_str(b)
    if sa or sb:
        if not (sa and sb):
            return False
        if type(a) is str and type(b) is str:
            return a == b
        return same(cps(a), cps(b))
    if isinstance(a, dict) and isinstance(b, dict):
        if len(a) != len(b):
            return False
        for k in a:
            if k not in b or not _deq(a[k], b[k]):
                return False
        return True
    if isinstance(a, (list, tuple)) and isinstance(b, (list, tuple)):
        if len(a) != len(b):
            return False
        for x, y in zip(a, b):
            if not _deq(x, y):
                return False
        return True
    if type(a) in (int, bool, float, type(None)) and type(b) in (int, bool, float, type(None)):
        return a == b
    # symbolic ints/bools or anything else: compare under tracing
    from .sym import is_symbolic

    try:
        from crosshair.tracers import ResumedTracing

        with ResumedTracing():
            return True if a == b else False
    except Exception:
        return a == b


def shard_job(job: dict, var: str = "a", coarse: bool = True) -> list:
    """Split one job into disjoint jobs by the class of free variable `var` (params['spec'][var]['extra'] is conjoined)."""
    out = []
    spec = job["params"].get("spec", {})
    for name, extra in shard_extras(var, coarse=coarse, exclude=spec.get(var, {}).get("exclude", "")):
        j = dict(job)
        p = dict(job["params"])
        sp = {k: dict(v) for k, v in spec.items()}
        old = sp.get(var, {}).get("extra")
        sp[var] = dict(sp.get(var, {}), extra=(f"({old}) and ({extra})" if old else extra))
        p["spec"] = sp
        p["shard"] = name
        j["params"] = p
        out.append(j)
    return out
