"""E1: CrossHair 0.0.110 driven as a library.

A *job* is one CrossHair condition: a harness (``vcheck.props.<mod>.HARNESSES[name]``),
a JSON ``params`` dict and the list of free (symbolic) variables the harness declares for
those params.  ``run_job`` is executed inside a dedicated worker process (see worker.py).

Per path the harness body

1. builds the input from params + symbolic values and runs the *real* code of /repo,
2. evaluates the property oracle, obtaining a list of violation records
   (``{"key": ..., "detail": ...}``),
3. detaches the path from CrossHair's search tree and realises the symbolic inputs and
   the observable to concrete values (one concrete representative per explored path),
4. returns ``False`` (post-condition fails => CrossHair stops with a counterexample) iff
   a record is not covered by known_findings.json.

Nothing CrossHair reports is trusted without a native re-run (see native.py).
"""
from __future__ import annotations

import json
import linecache
import os
import sys
import time
import traceback
from dataclasses import dataclass, field
from typing import Any, Callable

CROSSHAIR_VERSION = "0.0.110"

# --------------------------------------------------------------------------------------
# free variables


@dataclass
class Free:
    """One symbolic input of a job."""

    name: str
    kind: str = "char"  # char | seg | int | bool
    # char/seg: None = any Unicode scalar value; else explicit alphabet (string of chars)
    alphabet: str | None = None
    exclude: str = ""  # characters excluded (e.g. "\r\0")
    maxlen: int = 1  # seg: 0..maxlen
    minlen: int = 0
    lo: int = 0  # int
    hi: int = 0
    # optional extra precondition, python expression over the variable name
    extra: str | None = None

    def pytype(self) -> str:
        return {"char": "str", "seg": "str", "int": "int", "bool": "bool"}[self.kind]

    def pre(self) -> list[str]:
        n = self.name
        out: list[str] = []
        if self.kind in ("char", "seg"):
            if self.kind == "char":
                out.append(f"len({n}) == 1")
            else:
                out.append(f"{self.minlen} <= len({n}) <= {self.maxlen}")
            if self.alphabet is not None:
                out.append(f"all(_ch in {self.alphabet!r} for _ch in {n})")
            else:
                # surrogates excluded, as the properties do
                out.append(f"all(not (55296 <= ord(_ch) <= 57343) for _ch in {n})")
                if self.exclude:
                    out.append(f"all(_ch not in {self.exclude!r} for _ch in {n})")
        elif self.kind == "int":
            out.append(f"{self.lo} <= {n} <= {self.hi}")
        if self.extra:
            out.append(self.extra)
        # PEP316 docstrings are read raw: no backslashes or newlines may appear
        return [_docsafe(x) for x in out]

    def describe(self) -> dict:
        d = {"name": self.name, "kind": self.kind}
        if self.kind in ("char", "seg"):
            d["alphabet"] = self.alphabet if self.alphabet is not None else (
                "all Unicode scalar values" + (f" except {self.exclude!r}" if self.exclude else ""))
            if self.kind == "seg":
                d["len"] = [self.minlen, self.maxlen]
        elif self.kind == "int":
            d["range"] = [self.lo, self.hi]
        if self.extra:
            d["extra"] = self.extra
        return d


def _docsafe(expr: str) -> str:
    """Rewrite string literals containing backslashes so that the expression can live in
    a PEP316 docstring (which CrossHair reads raw)."""
    if "\\" not in expr and "\n" not in expr:
        return expr
    import ast

    class T(ast.NodeTransformer):
        def visit_Constant(self, node):
            if isinstance(node.value, str) and any(
                (c == "\\" or ord(c) < 32 or ord(c) > 126 or c in "'\"") for c in node.value
            ):
                # "".join(map(chr, [..]))
                return ast.parse(
                    "''.join(map(chr, %r))" % ([ord(c) for c in node.value],), mode="eval"
                ).body
            return node

    tree = T().visit(ast.parse(expr, mode="eval"))
    ast.fix_missing_locations(tree)
    return ast.unparse(tree)


# --------------------------------------------------------------------------------------
# harness protocol


@dataclass
class Harness:
    """free(params) -> [Free]; run(params, values: dict) -> (records, observable)."""

    name: str
    free: Callable[[dict], list[Free]]
    run: Callable[[dict, dict], tuple[list, Any]]
    doc: str = ""
    # functions of /repo entered (for evidence)
    functions: tuple = ()
    # run once per process before exploration (build and warm instances natively)
    prepare: Callable[[dict], None] | None = None


# --------------------------------------------------------------------------------------
# CrossHair plumbing (imported lazily so that native.py never loads crosshair)

_PATCHED = False
STATS = {"smt_checks": 0, "smt_time": 0.0}


def _patch_crosshair():
    global _PATCHED
    if _PATCHED:
        return
    import re

    import crosshair
    from crosshair.libimpl import relib

    if crosshair.__version__ != CROSSHAIR_VERSION:
        raise RuntimeError(f"crosshair {crosshair.__version__} != {CROSSHAIR_VERSION}")

    # CrossHair bug: an IGNORECASE literal that is a regex metacharacter is compiled
    # unescaped ('+' in mdurl's PROTOCOL_PATTERN) -> spurious re.error.
    def unicode_ignorecase_mask(cp: int):
        mask = relib._UNICODE_IGNORECASE_MASKS.get(cp)
        if mask is None:
            chars = relib.caseable_chars()
            matches = re.compile(re.escape(chr(cp)), re.IGNORECASE).findall(chars)
            mask = relib.CharMask([ord(c) for c in matches])
            relib._UNICODE_IGNORECASE_MASKS[cp] = mask
        return mask

    relib.unicode_ignorecase_mask = unicode_ignorecase_mask

    # solver time accounting
    import z3

    orig_check = z3.Solver.check

    def timed_check(self, *a, **kw):
        t = time.perf_counter()
        try:
            return orig_check(self, *a, **kw)
        finally:
            STATS["smt_checks"] += 1
            STATS["smt_time"] += time.perf_counter() - t

    z3.Solver.check = timed_check
    # CrossHair forks every int/bool/str argument into "realise prematurely" vs "keep symbolic" (a bug-finding heuristic whose
    # probability grows when a variable gets realised at the end of a path, which this engine always does).  Both sides cover the
    # same inputs; only the symbolic side can be exhausted.  Never take the premature side.
    from crosshair.statespace import StateSpace

    orig_fork = StateSpace.fork_parallel

    def fork_parallel(self, false_probability, desc=""):
        if desc.startswith("premature realize"):
            return False
        return orig_fork(self, false_probability, desc)

    StateSpace.fork_parallel = fork_parallel

    # CrossHair bug: LazyIntSymbolicStr.__eq__ delegates to SequenceConcatenation.__eq__, which compares its pieces with
    # `first == other[:n]`; when one piece is a list and the other a tuple/slice view Python's list==tuple is False, so two
    # strings with identical code points compare unequal (spurious counterexamples that do not replay).  Compare code points
    # element-wise instead (symbolic elements are still decided by the solver).
    from crosshair.libimpl.builtinslib import LazyIntSymbolicStr
    from crosshair.tracers import NoTracing, ResumedTracing

    def str_eq(self, other):
        with NoTracing():
            if isinstance(other, LazyIntSymbolicStr):
                otherpoints = other._codepoints
            elif isinstance(other, str):
                otherpoints = [ord(ch) for ch in other]
            else:
                return NotImplemented
            mypoints = self._codepoints
            n1, n2 = _concrete_len(mypoints), _concrete_len(otherpoints)
            if n1 is None or n2 is None:
                # some length is symbolic: compare under tracing (slow path)
                with ResumedTracing():
                    if len(mypoints) != len(otherpoints):
                        return False
                    for i in range(len(mypoints)):
                        a, b = mypoints[i], otherpoints[i]
                        if a is b:
                            continue
                        if a != b:
                            return False
                    return True
            if n1 != n2:
                return False
            # concrete pairs are compared natively; only pairs with a symbolic code point go to the solver
            pending = []
            for i in range(n1):
                a, b = mypoints[i], otherpoints[i]
                if a is b:
                    continue
                if type(a) is int and type(b) is int:
                    if a != b:
                        return False
                else:
                    pending.append((a, b))
            with ResumedTracing():
                for a, b in pending:
                    if a != b:
                        return False
            return True

    LazyIntSymbolicStr.__eq__ = str_eq


    # CrossHair bug: ShellMutableMap (the model behind dict(...) under tracing) iterates overwritten keys last, whereas a real
    # dict keeps the position of a key whose value is replaced (Token.attrSet("alt", ...) at render time reordered attributes).
    from crosshair import simplestructs

    _DEL = simplestructs._DELETED

    def smm_iter(self):
        mutations = self._mutations
        mkeys = list(mutations.keys())  # compare against a list to avoid hashing
        inner_keys = []
        for k in self._inner:
            inner_keys.append(k)
            if k in mkeys:
                if mutations[k] is not _DEL:
                    yield k
            else:
                yield k
        for k, v in mutations.items():
            if v is not _DEL and k not in inner_keys:
                yield k

    simplestructs.ShellMutableMap.__iter__ = smm_iter

    # CrossHair bug: Pattern.search on a symbolic string never tries the end position (`while pos < endpos`), so patterns
    # that match the empty string at the end - `^$` on an empty line in html_block - never match.  Same function, loop bound fixed.
    ns = relib.__dict__
    exec(_FIXED_SEARCH_SRC, ns)
    relib._search.__code__ = ns["_search_fixed"].__code__
    _install_quote_model()
    _install_concretizers()
    _PATCHED = True


def native_if_concrete(x):
    """x itself, or - if x is a CrossHair symbolic string all of whose code points are concrete ints - the equal native str.
    (Engine optimisation without change of meaning.)"""
    import sys

    m = sys.modules.get("crosshair.libimpl.builtinslib")
    if m is None or type(x) is str:
        return x
    from crosshair.tracers import NoTracing

    with NoTracing():
        if type(x) is not m.LazyIntSymbolicStr:
            return x
        pts = x._codepoints
        n = _concrete_len(pts)
        if n is None or n > 8192:
            return x
        out = []
        try:
            for k in range(n):
                c = pts[k]
                if type(c) is not int:
                    return x
                out.append(c)
        except BaseException as e:
            if type(e).__name__ != "CrossHairInternal":
                raise
            return x
        return "".join(map(chr, out))


def concretize_tokens(tokens):
    """Replace fully concrete symbolic-typed string fields of tokens (content, markup, info, attrs values) by native strs."""
    for t in tokens:
        t.content = native_if_concrete(t.content)
        t.markup = native_if_concrete(t.markup)
        t.info = native_if_concrete(t.info)
        if t.attrs:
            for k in list(t.attrs):
                t.attrs[k] = native_if_concrete(t.attrs[k])
        if t.children:
            concretize_tokens(t.children)


def _install_concretizers():
    """Engine optimisation without change of meaning: URL normalisation/validation and reference-label normalisation are regex-
    and case-mapping-heavy; a destination or label is a slice of the (symbolic-typed) source and costs 30-100 CPU-s per call in
    CrossHair's symbolic string algorithms even when every one of its characters is concrete.  When ALL code points of the argument
    are concrete ints the very same real function is called with the equal native str; arguments with a symbolic character are untouched."""
    import functools

    from crosshair.libimpl.builtinslib import LazyIntSymbolicStr
    from crosshair.tracers import NoTracing

    def native_if_concrete(x):
        with NoTracing():
            if type(x) is not LazyIntSymbolicStr:
                return x
            pts = x._codepoints
            n = _concrete_len(pts)
            if n is None or n > 4096:
                return x
            out = []
            try:
                for k in range(n):
                    c = pts[k]
                    if type(c) is not int:
                        return x
                    out.append(c)
            except BaseException as e:  # symbolic index arithmetic inside a view: leave the argument alone
                if type(e).__name__ != "CrossHairInternal":
                    raise
                return x
            return "".join(map(chr, out))

    def wrap(fn):
        @functools.wraps(fn)
        def w(arg, *a, **kw):
            return fn(native_if_concrete(arg), *a, **kw)

        w.__wrapped_by_vcheck__ = True
        return w

    import markdown_it.common.normalize_url as nu
    import markdown_it.common.utils as cu
    import markdown_it.rules_block.reference as rb
    import markdown_it.rules_inline.image as ri
    import markdown_it.rules_inline.link as rl

    for mod, names in ((nu, ("normalizeLink", "normalizeLinkText", "validateLink")), (cu, ("normalizeReference",)),
                       (rb, ("normalizeReference",)), (ri, ("normalizeReference",)), (rl, ("normalizeReference",))):
        for nm in names:
            f = getattr(mod, nm, None)
            if f is not None and not getattr(f, "__wrapped_by_vcheck__", False):
                setattr(mod, nm, wrap(f))


def _install_quote_model():
    """mdurl percent-encodes a non-ASCII character with urllib.parse.quote (C-level codec code).  A symbolic
    argument is realised first (CrossHair forks on its value), so jobs that put free characters into URL
    slots restrict the non-ASCII part of their alphabet to a small menu (mdutil.URL_NONASCII); the real
    function is always the one that runs."""
    import mdurl._encode as me
    from crosshair.core import deep_realize
    from crosshair.tracers import NoTracing

    real = me.encode_uri_component

    def quote_model(string, *a, **kw):
        with NoTracing():
            concrete = type(string) is str
        if not concrete:
            string = deep_realize(string)
        return real(string, *a, **kw)

    me.encode_uri_component = quote_model


def _concrete_len(pts):
    """Length of a CrossHair sequence if it is known without consulting the solver, else None."""
    from crosshair.simplestructs import SequenceConcatenation, SliceView

    if isinstance(pts, (list, tuple)):
        return len(pts)
    if isinstance(pts, SliceView):
        if type(pts.start) is int and type(pts.stop) is int:
            return max(0, pts.stop - pts.start)
        return None
    if isinstance(pts, SequenceConcatenation):
        a, b = _concrete_len(pts._first), _concrete_len(pts._second)
        return None if a is None or b is None else a + b
    return None


_FIXED_SEARCH_SRC = '''
def _search_fixed(self, string, pos=0, endpos=None):
    chr, ord = _check_str_or_bytes(self, string)
    if not isinstance(pos, int):
        raise TypeError
    if not (endpos is None or isinstance(endpos, int)):
        raise TypeError
    pos, endpos = realize(pos), realize(endpos)
    mylen = string.__len__()
    with NoTracing():
        if isinstance(string, (AnySymbolicStr, BytesLike)):
            pos, endpos, _ = slice(pos, endpos, 1).indices(realize(mylen))
            try:
                while pos <= endpos:
                    match = _match_pattern(self, string, pos, endpos, chr=chr, ord=ord)
                    if match:
                        return match
                    pos += 1
                return None
            except ReUnhandled as e:
                debug("Unsupported symbolic regex", self.pattern, e)
        if endpos is None:
            return re.Pattern.search(self, realize(string), pos)
        else:
            return re.Pattern.search(self, realize(string), pos, endpos)
'''

# state shared between the generated harness function and run_job
_CUR: dict = {}


def _path_body(**values):
    """Executed once per path under CrossHair tracing."""
    from crosshair.core import deep_realize
    from crosshair.statespace import context_statespace
    from crosshair.tracers import NoTracing

    h: Harness = _CUR["harness"]
    params = _CUR["params"]
    known = _CUR["known"]
    with NoTracing():
        t_start = time.process_time()
    records, obs = h.run(params, values)
    space = context_statespace()
    nchoices = len(space.choices_made)
    space.detach_path()
    if os.environ.get("VERIF_DEBUG_NO_REALIZE"):
        rvalues, robs, rrecords = {}, None, []
    else:
        rvalues = {k: deep_realize(v) for k, v in values.items()}
        robs = deep_realize(obs)
        rrecords = deep_realize(records)
    from .findings import split_known

    with NoTracing():
        listed, unlisted = split_known(rrecords, known, params, rvalues)
        _CUR["paths"].append(
            {
                "values": rvalues,
                "records": rrecords,
                "obs": digest(robs),
                "choices": nchoices,
                "unlisted": len(unlisted),
                "cpu": round(time.process_time() - t_start, 2),
            }
        )
        ok = not unlisted
    return ok


def digest(obs) -> str:
    import hashlib

    return hashlib.sha256(repr(obs).encode("utf-8", "surrogatepass")).hexdigest()[:20]


def build_harness_fn(frees: list[Free], tag: str):
    """Generate a PEP316 function `harness(<free vars>) -> bool` with the preconditions
    of the free variables and post-condition `_`."""
    args = ", ".join(f"{f.name}: {f.pytype()}" for f in frees)
    pres = [p for f in frees for p in f.pre()]
    lines = [f"def harness({args}) -> bool:", '    """']
    for p in pres:
        lines.append(f"    pre: {p}")
    lines.append("    post: _")
    lines.append('    """')
    kw = ", ".join(f"{f.name}={f.name}" for f in frees)
    lines.append(f"    return _path_body({kw})")
    src = "\n".join(lines) + "\n"
    fname = f"<vcheck-harness-{tag}>"
    linecache.cache[fname] = (len(src), None, src.splitlines(True), fname)
    ns = {"_path_body": _path_body}
    exec(compile(src, fname, "exec"), ns)
    fn = ns["harness"]
    fn.__module__ = "vcheck.engine_ch"
    return fn, src


def run_job(job: dict) -> dict:
    """Run one job to exhaustion (or cap).  Returns a JSON-able result dict."""
    t0 = time.time()
    _patch_crosshair()
    from crosshair import core
    from crosshair.core_and_libs import analyze_function, run_checkables
    from crosshair.options import AnalysisKind, AnalysisOptionSet

    from . import props
    from .findings import load_known

    h = props.get_harness(job["prop"], job["harness"])
    params = job.get("params", {})
    frees = h.free(params)
    _CUR.clear()
    _CUR.update(
        harness=h,
        params=params,
        known=load_known(job["prop"]),
        paths=[],
    )
    fn, src = build_harness_fn(frees, job.get("id", "job"))

    captured = {}
    orig = core.analyze_calltree

    def wrapped(options, conditions):
        r = orig(options, conditions)
        captured["r"] = r
        return r

    core.analyze_calltree = wrapped
    opts = AnalysisOptionSet(
        analysis_kind=[AnalysisKind.PEP316],
        per_condition_timeout=float(job.get("cpu_cap", 600)),
        per_path_timeout=float(job.get("path_cap", 30)),
        max_uninteresting_iterations=10**9,
        report_all=True,
    )
    try:
        if job.get("first_only"):
            pass
        msgs = list(run_checkables(analyze_function(fn, opts)))
    finally:
        core.analyze_calltree = orig
    r = captured.get("r")
    paths = _CUR["paths"]
    status = "UNKNOWN"
    detail = []
    for m in msgs:
        detail.append({"state": m.state.name, "message": m.message[:2000]})
    states = {m.state.name for m in msgs}
    bad_last = bool(paths) and paths[-1]["unlisted"] > 0
    if "POST_FAIL" in states and bad_last:
        status = "COUNTEREXAMPLE"
    elif "CONFIRMED" in states and r is not None and r.num_confirmed_paths > 0:
        status = "CONFIRMED"
    elif "EXEC_ERR" in states or "SYNTAX_ERR" in states or "IMPORT_ERR" in states:
        status = "HARNESS_ERROR"
    elif "PRE_UNSAT" in states:
        status = "VACUOUS"
    elif "POST_ERR" in states or "POST_FAIL" in states:
        status = "HARNESS_ERROR"
    else:
        status = "UNKNOWN"
    return {
        "id": job.get("id"),
        "prop": job["prop"],
        "harness": job["harness"],
        "params": params,
        "free": [f.describe() for f in frees],
        "status": status,
        "messages": detail,
        "paths": paths,
        "n_paths": len(paths),
        "confirmed_paths": getattr(r, "num_confirmed_paths", 0),
        "choices": sum(p["choices"] for p in paths),
        "smt_checks": STATS["smt_checks"],
        "smt_time": round(STATS["smt_time"], 3),
        "cpu_s": round(time.process_time(), 2),
        "wall_s": round(time.time() - t0, 2),
        "functions": list(h.functions),
    }
