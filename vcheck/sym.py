"""Small shims so that harness code runs unchanged with and without CrossHair."""
from __future__ import annotations

import contextlib
import sys


def is_symbolic() -> bool:
    m = sys.modules.get("crosshair.tracers")
    if m is None:
        return False
    try:
        return bool(m.is_tracing())
    except Exception:
        return False


@contextlib.contextmanager
def no_tracing():
    """`with no_tracing():` = crosshair.tracers.NoTracing() when tracing, else no-op."""
    if is_symbolic():
        from crosshair.tracers import NoTracing

        with NoTracing():
            yield
    else:
        yield


def realize(x):
    """Concrete value of x (forks/realises under CrossHair; identity natively)."""
    if "crosshair.core" in sys.modules and is_symbolic():
        from crosshair.core import deep_realize

        return deep_realize(x)
    return x
