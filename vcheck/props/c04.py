"""C04 — with raw HTML off, output is well-formed and contains only renderer-made markup."""
from __future__ import annotations

from .. import scaffolds as S
from ..engine_ch import Free, Harness
from ..mdutil import build_doc, exc_record, free_doc, get_md, render_nn, scaffold_frees, shard_extras
from ..oracles.html import scan_html

EXPLANATION = (
    "Three layers, all executed symbolically on the real code: (1) escapeHtml kernel; (2) parser + RendererHTML on scaffolds that put "
    "free characters into every output slot (text, code, fence info/class, href, title, src, alt, start, align, heading) with renderer "
    "options symbolic; (3) whole pipeline on free documents.  The (symbolic) output string is read by a strict scanner: tags and "
    "attributes only from the renderer's vocabulary, values/text without raw < > \", & only as one of four entities, proper nesting."
)
BOUNDS = {
    "quick": 'escapeHtml on 1, 2 and 3 free characters; 28 output-slot scaffolds (text, code, fence body/info/class, href, title, src, alt, start, align, cell, heading, breaks, html-looking input, reference title, nested strike/emphasis) with 1 free character (2 for code blocks; URL slots: ASCII + 7 non-ASCII representatives), xhtmlOut/breaks/inline_definitions/store_labels symbolic where relevant, langPrefix 1 free character; pipeline on 2 free characters + newline under js-default and zero',
    "thorough": 'all quick jobs (core) plus the deeper families of thorough_extra() (not core): more free characters, the commonmark preset, the contexts the quick tier had to shed (DESIGN.md 10.5)',
}
OUTSIDE = "custom renderers/highlight callbacks (excluded by the property); more than 3 free characters per slot; linkify"
ASSUMPTIONS = ["CR/NUL-free sources for layers 2-3 (normalize skipped)", "default RendererHTML, highlight=None"]

JS = S.JS
ZERO = S.ZERO
CMH = {"preset": "commonmark", "options": {"html": False}}
JST = {"preset": "js-default", "options": {"typographer": True}}
NOCR = {"exclude": "\r\0"}


def _esc_free(params):
    return [Free("abcdefgh"[i]) for i in range(params["k"])]


def _esc_run(params, values):
    from markdown_it.common.utils import escapeHtml

    s = "".join(values["abcdefgh"[i]] for i in range(params["k"]))
    out = escapeHtml(s)
    recs = []
    if "<" in out or ">" in out or '"' in out:
        recs.append({"key": "escape-leaves-special"})
    pos = out.find("&")
    while pos >= 0:
        if not (out.startswith("amp;", pos + 1) or out.startswith("lt;", pos + 1) or out.startswith("gt;", pos + 1)
                or out.startswith("quot;", pos + 1)):
            recs.append({"key": "escape-raw-amp"})
            break
        pos = out.find("&", pos + 1)
    back = out.replace("&quot;", '"').replace("&gt;", ">").replace("&lt;", "<").replace("&amp;", "&")
    if back != s:
        recs.append({"key": "escape-not-invertible"})
    return recs, out


def _free(params):
    frees = scaffold_frees(params["scaffold"], params.get("spec", {}))
    for o in params.get("sym_opts", []):
        if o == "langPrefix":
            frees.append(Free("lp", kind="char"))
        else:
            frees.append(Free("o_" + o, kind="bool"))
    return frees


def _prepare(params):
    get_md(params["cfg"])


def _run(params, values):
    md = get_md(params["cfg"])
    src = build_doc(params["scaffold"], values)
    saved = {}
    for o in params.get("sym_opts", []):
        saved[o] = md.options.get(o, False)
        md.options[o] = values["lp"] if o == "langPrefix" else values["o_" + o]
    try:
        try:
            out = render_nn(md, src, inline_mode=params.get("inline", False))
        except Exception as e:
            return [exc_record(e, "render")], "raised"
    finally:
        for o, v in saved.items():
            md.options[o] = v
    recs = scan_html(out)
    return recs, out


HARNESSES = {
    "escape": Harness("escape", _esc_free, _esc_run, functions=("common.utils.escapeHtml",)),
    "render": Harness("render", _free, _run, prepare=_prepare,
                      functions=("RendererHTML.render", "renderInline", "renderToken", "renderAttrs", "code_inline", "code_block",
                                 "fence", "image", "text", "html_block", "html_inline", "escapeHtml", "full parser")),
}


def H(v):
    return {"v": v}


# (name, scaffold, inline?, symbolic options)
SLOTS = [
    ("text", ["x", H("a"), H("b")], True, []),
    ("code-span", ["`", H("a"), H("b"), "`"], True, []),
    ("code-block", ["    ", H("a"), H("b"), "\n"], False, []),
    ("fence-body", ["```\n", H("a"), H("b"), "\n```\n"], False, []),
    ("fence-info", ["```", H("a"), H("b"), "\nx\n```\n"], False, ["langPrefix"]),
    ("fence-info-sp", ["``` ", H("a"), " ", H("b"), "\n```\n"], False, []),
    ("link-href", ["[t](", H("a"), H("b"), ")"], True, []),
    ("link-href-angle", ["[t](<", H("a"), H("b"), ">)"], True, []),
    ("link-title", ["[t](x \"", H("a"), H("b"), "\")"], True, []),
    ("link-title-paren", ["[t](x (", H("a"), H("b"), "))"], True, []),
    ("image-src", ["![t](", H("a"), H("b"), ")"], True, ["xhtmlOut"]),
    ("image-alt", ["![", H("a"), H("b"), "](x)"], True, ["xhtmlOut"]),
    ("image-title", ["![t](x '", H("a"), H("b"), "')"], True, []),
    ("autolink", ["<http://x/", H("a"), H("b"), ">"], True, []),
    ("autolink-mail", ["<a", H("a"), "@b.c>"], True, []),
    ("angle", ["<", H("a"), H("b"), ">"], True, []),
    ("angle-close", ["</", H("a"), H("b"), ">"], True, []),
    ("entity", ["&", H("a"), H("b"), ";"], True, []),
    ("entity-num", ["&#", H("a"), H("b"), ";"], True, []),
    ("ol-start", [H("a"), H("b"), ". x\n"], False, []),
    ("table-align", ["a|b\n", H("a"), "-", H("b"), "|-\n1|2\n"], False, []),
    ("table-cell", ["a|b\n-|-\n", H("a"), "|", H("b"), "\n"], False, []),
    ("heading", ["# ", H("a"), H("b"), "\n"], False, []),
    ("breaks", ["a", H("a"), "\n", H("b"), "b"], True, ["xhtmlOut", "breaks"]),
    ("hr-br", ["a  \nb\n\n", H("a"), H("a"), H("a"), "\n"], False, ["xhtmlOut"]),
    ("html-block", ["<div ", H("a"), H("b"), ">\n"], False, []),
    ("refdef-title", ["[r]: /x '", H("a"), H("b"), "'\n\n[r]\n"], False, ["inline_definitions", "store_labels"]),
    ("ref-image", ["![", H("a"), "][r]\n\n[r]: /x \"", H("b"), "\"\n"], False, ["xhtmlOut"]),
    ("strike-emph", ["~~*", H("a"), H("b"), "*~~"], True, []),
]


def _sharded(jobs, harness, base, var="a", weight=1, spec=None):
    for name, extra in shard_extras(var, exclude=(spec or {}).get(var, {}).get("exclude", "")):
        p = dict(base)
        sp = {k: dict(v) for k, v in (spec or {}).items()}
        sp[var] = dict(sp.get(var, {}), extra=(f"({sp[var]['extra']}) and ({extra})" if sp.get(var, {}).get("extra") else extra))
        p["spec"] = sp
        p["shard"] = name
        jobs.append({"harness": harness, "params": p, "weight": weight, "cpu_cap": 900, "wall_cap": 1500})


def jobs(tier, seed):
    jobs = []
    names = "abcdefgh"
    spec_nocr = {n: dict(NOCR) for n in names}
    for k in ((1, 2, 3) if tier == "quick" else (1, 2, 3, 4)):
        jobs.append({"harness": "escape", "params": {"k": k}, "weight": 3 * k, "cpu_cap": 1500, "wall_cap": 2400})
    for name, sc, inline, opts in SLOTS:
        if tier == "quick" and name == "autolink-mail":
            continue  # ~12 CPU-s per path (e-mail regex on a symbolic string): thorough only
        cfgs = [JS] if tier == "quick" else [JS, CMH, JST]
        for cfg in cfgs:
            scaffold = sc
            if tier == "quick" and not (name in QUICK_TWO_FREE):
                scaffold = [("x" if p == H("b") else p) for p in sc] if name in KEEP_SECOND else [p for p in sc if p != H("b")]
            base = {"cfg": cfg, "scaffold": scaffold, "inline": inline, "sym_opts": opts, "name": name,
                    "lp_len": 1 if tier == "quick" else 2}
            slot_spec = spec_nocr
            if name in URL_SLOTS:
                from ..mdutil import urlish

                ex = dict(exclude="\r\0\n") if name.startswith("autolink") else NOCR
                slot_spec = dict(spec_nocr, a=dict(ex, extra=urlish("a")), b=dict(ex, extra=urlish("b")))
            if tier == "thorough":
                _sharded(jobs, "render", base, weight=8, spec=slot_spec)
            else:
                base["spec"] = slot_spec
                jobs.append({"harness": "render", "params": base, "weight": 5, "cpu_cap": 900, "wall_cap": 1500})
    kp = 2 if tier == "quick" else 3
    for cfg in (JS, ZERO) if tier == "quick" else (JS, ZERO, CMH):
        _sharded(jobs, "render", {"cfg": cfg, "scaffold": free_doc(kp, "\n"), "inline": False, "sym_opts": [], "name": "pipeline"},
                 weight=7, spec=spec_nocr)
    return jobs


URL_SLOTS = ("link-href", "link-href-angle", "image-src", "autolink", "autolink-mail", "ref-image")
QUICK_TWO_FREE = ("code-block",)
KEEP_SECOND = ("table-align", "table-cell", "breaks", "ref-image", "fence-info-sp", "ol-start")
# slots whose second free character costs > 300 CPU-s (URL normalisation, entity table): one free character in quick
QUICK_ONE_FREE = ("link-href", "link-href-angle", "image-src", "autolink", "entity", "entity-num", "ref-image", "refdef-title",
                  "link-title", "link-title-paren", "image-title", "image-alt", "strike-emph", "angle", "angle-close", "code-span", "text")


def thorough_extra(seed):
    jobs = []
    spec_nocr = {n: dict(NOCR) for n in "abcdefgh"}
    jobs.append({"harness": "escape", "params": {"k": 4}, "weight": 30})
    from ..mdutil import urlish

    for name, sc, inline, opts in SLOTS:
        ex = dict(exclude="\r\0\n") if name.startswith("autolink") else NOCR
        slot_spec = dict(spec_nocr, a=dict(ex, extra=urlish("a")), b=dict(ex, extra=urlish("b"))) if name in URL_SLOTS else spec_nocr
        if name not in URL_SLOTS and name not in ("entity", "entity-num", "ref-image", "refdef-title"):
            # two free characters in the slot (js-default)
            _sharded(jobs, "render", {"cfg": JS, "scaffold": sc, "inline": inline, "sym_opts": opts, "name": name + "-2free"}, weight=12, spec=slot_spec)
        # one free character under commonmark with html=False and with the typographer on
        sc1 = [("x" if p == H("b") else p) for p in sc] if name in KEEP_SECOND else [p for p in sc if p != H("b")]
        for cfg in (CMH, JST):
            jobs.append({"harness": "render", "params": {"cfg": cfg, "scaffold": sc1, "inline": inline, "sym_opts": opts, "name": name + "-" + cfg["preset"],
                                                          "spec": slot_spec}, "weight": 4})
    _sharded(jobs, "render", {"cfg": CMH, "scaffold": free_doc(2, "\n"), "inline": False, "sym_opts": [], "name": "pipeline-cm"}, weight=7, spec=spec_nocr)
    for j in jobs:
        j["cpu_cap"] = 3000
        j["wall_cap"] = 4000
    return jobs
