"""C18 — inline text means the same in every block context; render options are inert."""
from __future__ import annotations

from .. import scaffolds as S
from ..engine_ch import Free, Harness
from ..mdutil import deep_equal, block_parse, build_doc, exc_record, free_doc, get_md, pipeline_nn, scaffold_frees, shard_extras, stream_view
from ..sym import no_tracing

EXPLANATION = (
    "(1) for symbolic s: if the real block parser turns s into exactly one paragraph whose inline content is s, then parseInline(s) has exactly the "
    "paragraph's children and renderInline(s) is render(s) without the <p> wrapper; (2) inline fragments with free characters embedded in paragraph, "
    "ATX heading, list item, block quote and table cell give identical children and inline HTML; (3) xhtmlOut/breaks/langPrefix/highlight symbolic: "
    "token dicts identical, HTML identical after mapping the documented places."
)
BOUNDS = {
    "quick": '(1) s = 2 free characters; (2) 3 inline fragments (code span, escape, plain text) x 1 free character, paragraph vs each of heading/list item/block quote/table cell; (3) 3 documents with 1 free character: xhtmlOut+breaks symbolic, and highlight+langPrefix(1 free character) symbolic on the fence document',
    "thorough": 'all quick jobs (core) plus the deeper families of thorough_extra() (not core): more free characters, the commonmark preset, the contexts the quick tier had to shed (DESIGN.md 10.5)',
}
OUTSIDE = "fragments/contexts beyond the menus; typographer on; custom renderers"
ASSUMPTIONS = ["(2) the statement's syntactic guards are assumptions: t trimmed, first character alphanumeric, no trailing '#', no | \\ ` in table cells; free characters exclude newline",
               "(3) js-default (html off) so that ' />' and '<br>' can only come from the renderer"]

JS = S.JS
CM = S.CM
NOCR = {"exclude": "\r\0"}
NOCRNL = {"exclude": "\r\0\n"}


def _free(params):
    return scaffold_frees(params["scaffold"], params.get("spec", {}))


def _prepare(params):
    get_md(params["cfg"])


def _single_run(params, values):
    md = get_md(params["cfg"])
    s = build_doc(params["scaffold"], values)
    try:
        bt, _ = block_parse(md, s)
        if not (len(bt) == 3 and bt[0].type == "paragraph_open" and bt[1].type == "inline" and bt[1].content == s):
            return [], "assume: not a single paragraph holding s"
        full, env = pipeline_nn(md, s)
        inl, env2 = pipeline_nn(md, s, inline_mode=True)
        h_full = md.renderer.render(full, md.options, env)
        h_inl = md.renderer.render(inl, md.options, env2)
    except Exception as e:
        return [exc_record(e, "pipeline")], "raised"
    recs = []
    if len(inl) != 1 or inl[0].type != "inline":
        recs.append({"key": "parseInline-shape"})
    elif not deep_equal(stream_view(inl[0].children or []), stream_view(full[1].children or [])):
        recs.append({"key": "parseInline-children-differ-from-paragraph"})
    if h_full != "<p>" + h_inl + "</p>\n":
        recs.append({"key": "renderInline-differs-from-paragraph-html"})
    return recs, h_inl


CONTEXTS = {"paragraph": ("{}\n", 1), "heading": ("# {}\n", 1), "list": ("- {}\n", 3), "quote": ("> {}\n", 2), "table": ("| {} | x |\n|-|-|\n", 4)}


def _ctx_free(params):
    return scaffold_frees(params["fragment"], params.get("spec", {}))


def _ctx_run(params, values):
    md = get_md(params["cfg"])
    t = build_doc(params["fragment"], values)
    if t.strip() != t or t == "" or not t[0].isalnum() or t.endswith("#"):
        return [], "assume: guard (trim / alphanumeric start / trailing #)"
    recs = []
    outs = []
    try:
        ref = None
        for name, (tpl, idx) in CONTEXTS.items():
            if params.get("only") and name not in ("paragraph", params["only"]):
                continue
            if name == "table" and ("|" in t or "\\" in t or "`" in t):
                continue
            pre_, post_ = tpl.split("{}")
            toks, env = pipeline_nn(md, pre_ + t + post_)
            if idx >= len(toks) or toks[idx].type != "inline":
                recs.append({"key": "context-shape", "ctx": name, "detail": str([x.type for x in toks])[:200]})
                continue
            kids = [dict(d, level=0) if False else d for d in stream_view(toks[idx].children or [])]
            h = md.renderer.renderInline(toks[idx].children or [], md.options, env)
            if ref is None:
                ref = (kids, h, name)
            else:
                if not deep_equal(kids, ref[0]):
                    recs.append({"key": "inline-tokens-differ-between-contexts", "ctx": name})
                if h != ref[1]:
                    recs.append({"key": "inline-html-differs-between-contexts", "ctx": name})
            outs.append(h)
    except Exception as e:
        return [exc_record(e, "pipeline")], "raised"
    return recs, outs


def _hl(code, lang, attrs):
    from markdown_it.common.utils import escapeHtml

    return escapeHtml(code)


def _opt_free(params):
    fr = scaffold_frees(params["scaffold"], params.get("spec", {}))
    opts = params.get("opts", ["xh", "br", "hl", "lp"])
    for o in opts:
        fr.append(Free("lp", exclude="") if o == "lp" else Free(o, kind="bool"))
    return fr


def _opt_prepare(params):
    get_md(params["cfg"])
    get_md(dict(params["cfg"], _twin="opts"))


def _opt_run(params, values):
    from markdown_it.common.utils import escapeHtml

    base = get_md(params["cfg"])
    twin = get_md(dict(params["cfg"], _twin="opts"))
    src = build_doc(params["scaffold"], values)
    saved = {k: twin.options.get(k) for k in ("xhtmlOut", "breaks", "langPrefix", "highlight")}
    base.options["xhtmlOut"] = False
    base.options["breaks"] = False
    values = dict(values)
    values.setdefault("xh", False)
    values.setdefault("br", False)
    values.setdefault("hl", False)
    values.setdefault("lp", "language-")
    twin.options["xhtmlOut"] = True if values["xh"] else False
    twin.options["breaks"] = True if values["br"] else False
    twin.options["langPrefix"] = values["lp"]
    twin.options["highlight"] = _hl if values["hl"] else None
    try:
        try:
            t1, e1 = pipeline_nn(base, src)
            t2, e2 = pipeline_nn(twin, src)
            h1 = base.renderer.render(t1, base.options, e1)
            h2 = twin.renderer.render(t2, twin.options, e2)
        except Exception as e:
            return [exc_record(e, "pipeline")], "raised"
    finally:
        for k, v in saved.items():
            twin.options[k] = v
    recs = []
    if not deep_equal(stream_view(t1), stream_view(t2)):
        recs.append({"key": "render-option-changes-tokens"})
    # map the documented places of h2 back to the base spelling (code-point lists: native speed on the concrete part)
    from ..symstr import contains, count, cps, replace, same

    c1, c2 = cps(h1), cps(h2)
    lp = cps(escapeHtml(values["lp"]))
    nsoft = 0
    for t in t1:
        for c in (t.children or []):
            if c.type == "softbreak":
                nsoft += 1
    with no_tracing():
        m = c2
        if values["xh"]:
            # under xhtmlOut every void tag must be spelled with ' />'
            if contains(c2, "<br>") or contains(c2, "<hr>") or (contains(c2, "<img ") and not contains(c2, " />")):
                recs.append({"key": "xhtmlOut-void-tag-spelling"})
            m = replace(m, " />", ">")
        elif contains(c2, " />"):
            recs.append({"key": "xhtmlOut-void-tag-spelling"})
        if values["br"]:
            if count(m, "<br>\n") != count(c1, "<br>\n") + nsoft:
                recs.append({"key": "breaks-option-effect", "detail": "number of <br> differs from hardbreaks + softbreaks"})
            m = replace(m, "<br>\n", "\n")
            b = replace(c1, "<br>\n", "\n")
        else:
            b = c1
        # class="language-X" -> class="<lp>X"
        pre = [ord(ch) for ch in 'class="']
        b2 = []
        i = 0
        key = 'class="language-'
        while i < len(b):
            from ..symstr import starts

            if starts(b, i, key):
                b2.extend(pre)
                b2.extend(lp)
                i += len(key)
            else:
                b2.append(b[i])
                i += 1
        if not same(m, b2):
            recs.append({"key": "render-option-changes-html-elsewhere"})
    return recs, h2


HARNESSES = {
    "single": Harness("single", _free, _single_run, prepare=_prepare, functions=("MarkdownIt.parseInline/renderInline (pipeline)", "rules_core.block", "ParserInline.parse")),
    "contexts": Harness("contexts", _ctx_free, _ctx_run, prepare=_prepare, functions=("paragraph", "heading", "list_block", "blockquote", "table", "ParserInline.parse", "RendererHTML.renderInline")),
    "options": Harness("options", _opt_free, _opt_run, prepare=_opt_prepare, functions=("RendererHTML.*", "OptionsDict")),
}


def H(v):
    return {"v": v}


FRAGMENTS = [
    ("emph", ["a *", H("a"), "* b"]), ("strong", ["a **b", H("a"), "** c"]), ("code", ["a `", H("a"), "` b"]), ("link", ["a [b", H("a"), "](/u) c"]),
    ("image", ["a ![", H("a"), "](/u) c"]), ("entity", ["a &", H("a"), "mp; b"]), ("escape", ["a \\", H("a"), " b"]), ("autolink", ["a <http://x/", H("a"), "> b"]),
    ("html", ["a <b", H("a"), "> c"]), ("plain", ["a", H("a"), "b"]), ("strike", ["a ~~", H("a"), "~~ b"]),
]
OPT_SCAFFOLDS = [
    ["a", H("a"), "\nb  \nc\n\n***\n"], ["![i](/s) ", H("a"), "\n"], ["```", H("a"), " x\nc&<\n```\n"], ["```\n", H("a"), "\n```\n\n    ", H("b"), "\n"],
    ["- a\n  b", H("a"), "\n\n> c\n> d\n"], ["a|b\n-|-\n", H("a"), "|2\n\n---\n"], ["~~~", H("a"), H("b"), "\nq\n~~~\n"],
]


def _sharded(jobs, harness, base, var="a", weight=1, spec=None):
    for name, extra in shard_extras(var, exclude=(spec or {}).get(var, {}).get("exclude", "")):
        p = dict(base)
        sp = {k: dict(v) for k, v in (spec or {}).items()}
        sp[var] = dict(sp.get(var, {}), extra=(f"({sp[var]['extra']}) and ({extra})" if sp.get(var, {}).get("extra") else extra))
        p["spec"] = sp
        p["shard"] = name
        jobs.append({"harness": harness, "params": p, "weight": weight, "cpu_cap": 1500, "wall_cap": 2400})


def jobs(tier, seed):
    jobs = []
    spec = {n: dict(NOCR) for n in "abcdefgh"}
    specnl = {n: dict(NOCRNL) for n in "abcdefgh"}
    k = 2 if tier == "quick" else 3
    for cfg in ((JS,) if tier == "quick" else (JS, CM)):
        _sharded(jobs, "single", {"cfg": cfg, "scaffold": free_doc(k)}, weight=10, spec=spec)
    for name, frag in FRAGMENTS:
        if tier == "thorough":
            frag = [p for q in frag for p in ([q, H("b")] if q == H("a") else [q])]
        elif name not in ("code", "escape", "plain"):
            continue  # free characters next to emphasis delimiters, link syntax or entities cost 20-60 CPU-s per path (Unicode punctuation
            # classes, reference lookups, the 2 231-entry entity table): those fragments are thorough-only;  the entity fragment (symbolic key into the 2 231-entry entity table) costs > 60 CPU-s per path: thorough only
        for other in ("heading", "list", "quote", "table"):
            job = {"harness": "contexts", "params": {"cfg": JS, "fragment": frag, "spec": specnl, "name": name, "only": other}, "weight": 6,
                   "cpu_cap": 2400, "wall_cap": 3600, "path_cap": 120}
            if tier == "quick":
                from ..mdutil import shard_job

                jobs += shard_job(job)
            else:
                jobs.append(job)
    for si, sc in enumerate(OPT_SCAFFOLDS):
        if tier == "quick" and si in (1, 3, 4, 5):
            continue
        if tier == "quick":
            fence = any(isinstance(p, str) and ("```" in p or "~~~" in p) for p in sc)
            sc1 = [("x" if p == H("b") else p) for p in sc]
            from ..mdutil import shard_job

            jobs += shard_job({"harness": "options", "params": {"cfg": JS, "scaffold": sc1, "spec": spec, "name": "opts", "opts": ["hl", "lp"] if fence else ["xh", "br"]},
                               "weight": 12, "cpu_cap": 2400, "wall_cap": 3600, "path_cap": 120})
        else:
            jobs.append({"harness": "options", "params": {"cfg": JS, "scaffold": sc, "spec": spec, "name": "opts"}, "weight": 30, "cpu_cap": 6000, "wall_cap": 7200})
    if tier == "thorough":
        _sharded(jobs, "options", {"cfg": JS, "scaffold": free_doc(3, "\n"), "name": "opts-free"}, weight=12, spec=spec)
    return jobs


def thorough_extra(seed):
    jobs = []
    spec = {n: dict(NOCR) for n in "abcdefgh"}
    specnl = {n: dict(NOCRNL) for n in "abcdefgh"}
    _sharded(jobs, "single", {"cfg": JS, "scaffold": free_doc(3)}, weight=20, spec=spec)
    _sharded(jobs, "single", {"cfg": CM, "scaffold": free_doc(2)}, weight=8, spec=spec)
    for name, frag in FRAGMENTS:
        if name in ("code", "escape", "plain"):
            continue
        for other in ("heading", "list", "quote", "table"):
            jobs.append({"harness": "contexts", "params": {"cfg": JS, "fragment": frag, "spec": specnl, "name": name, "only": other}, "weight": 6, "path_cap": 120})
    for si, sc in enumerate(OPT_SCAFFOLDS):
        sc1 = [("x" if p == H("b") else p) for p in sc]
        jobs.append({"harness": "options", "params": {"cfg": JS, "scaffold": sc1, "spec": spec, "name": "opts-all"}, "weight": 30, "path_cap": 120})
    for j in jobs:
        j["cpu_cap"] = 6000
        j["wall_cap"] = 7200
    return jobs
