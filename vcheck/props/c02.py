"""C02 — token streams are well nested, correctly levelled and tree-constructible."""
from __future__ import annotations

from .. import scaffolds as S
from ..engine_ch import Free, Harness
from ..mdutil import build_doc, exc_record, free_doc, get_md, pipeline_nn, scaffold_frees, shard_extras
from ..oracles.stream import check_stream, check_tree
from ..sym import no_tracing

EXPLANATION = (
    "The real pipeline (block parser, inline parser, core rules; normalize skipped on CR/NUL-free input) is executed "
    "symbolically; on every path the returned stream is checked by a bracket-matching/level/flag/children oracle and "
    "SyntaxTreeNode is built from it."
)
BOUNDS = {
    "quick": "block unit FREE(3)(+newline) and pipeline FREE(2)+newline (js-default); inline-mode FREE(2); delimiter alphabet FREE(3); CTX scaffolds "
             "(block contexts: 2 free characters on the block unit; inline contexts: 1 free character); nesting scaffolds with symbolic maxNesting 1..4",
    "thorough": "block unit FREE(4), pipeline FREE(3), inline-mode FREE(3), delimiter alphabet FREE(4), CTX with 2 free characters through the whole pipeline, x {js-default, commonmark}",
}
OUTSIDE = "delimiter interactions needing more than 5 characters; linkify core rule (library absent); documents beyond the scaffolds"
ASSUMPTIONS = ["sources are CR/NUL free (normalize, verified in C17, is skipped)",
               "the synthetic wrapper token returned by parseInline is exempt from the block-flag clause"]

DELIMS = "*_~a \\[]()!`"


def _free(params):
    frees = scaffold_frees(params["scaffold"], params.get("spec", {}))
    if params.get("maxnest"):
        frees.append(Free("mn", kind="int", lo=1, hi=params["maxnest"]))
    return frees


def _prepare(params):
    get_md(params["cfg"])


def _run(params, values):
    md = get_md(params["cfg"])
    src = build_doc(params["scaffold"], values)
    inline_mode = params["mode"] == "inline"
    block_mode = params["mode"] == "block"
    recs = []
    saved = None
    if "mn" in values:
        saved = md.options["maxNesting"]
        md.options["maxNesting"] = values["mn"]
    try:
        try:
            if block_mode:
                from ..mdutil import block_parse

                toks, env = block_parse(md, src)
            else:
                toks, env = pipeline_nn(md, src, inline_mode=inline_mode)
        except Exception as e:
            return [exc_record(e, params["mode"])], "raised"
    finally:
        if saved is not None:
            md.options["maxNesting"] = saved
    if inline_mode:
        # wrapper token exempt; its children are an inline stream
        if len(toks) != 1 or toks[0].type != "inline":
            recs.append({"key": "parseInline-shape", "where": "top"})
        else:
            check_stream(toks[0].children or [], where="inline", top_block=False, recs=recs)
            check_stream(toks, where="top", top_block=None, recs=recs, depth_limit=0)
    elif block_mode:
        # block unit: inline containers have no children yet (the inline parser has not run)
        check_stream(toks, where="top", top_block=True, recs=recs, depth_limit=0)
        recs[:] = [r for r in recs if r["key"] != "children-missing"]
    else:
        check_stream(toks, where="top", top_block=True, recs=recs)
    check_tree(toks, recs)
    obs = [(t.type, t.level, [(c.type, c.level) for c in (t.children or [])]) for t in toks]
    return recs, obs


HARNESSES = {
    "stream": Harness("stream", _free, _run, prepare=_prepare,
                      functions=("ParserCore.process (minus normalize)", "ParserBlock.parse", "ParserInline.parse",
                                 "balance_pairs", "emphasis", "strikethrough", "fragments_join", "text_join",
                                 "SyntaxTreeNode.__init__")),
}

JS = S.JS
CM = S.CM
NOCR = {"exclude": "\r\0"}


def _sharded(jobs, base, var="a", weight=1, spec=None):
    for name, extra in shard_extras(var, exclude=(spec or {}).get(var, {}).get("exclude", "")):
        p = dict(base)
        sp = {k: dict(v) for k, v in (spec or {}).items()}
        sp[var] = dict(sp.get(var, {}), extra=(f"({sp[var]['extra']}) and ({extra})" if sp.get(var, {}).get("extra") else extra))
        p["spec"] = sp
        p["shard"] = name
        jobs.append({"harness": "stream", "params": p, "weight": weight, "cpu_cap": 900, "wall_cap": 1500})


def jobs(tier, seed):
    jobs = []
    names = "abcdefgh"
    spec_nocr = {n: dict(NOCR) for n in names}
    if tier == "quick":
        # block level on the block unit (cheap), inline level on the inline unit, the full pipeline on FREE(2)
        for suffix in ("\n", ""):
            _sharded(jobs, {"cfg": JS, "mode": "block", "scaffold": free_doc(3, suffix)}, weight=10, spec=spec_nocr)
        _sharded(jobs, {"cfg": JS, "mode": "parse", "scaffold": free_doc(2, "\n")}, weight=10, spec=spec_nocr)
        _sharded(jobs, {"cfg": JS, "mode": "inline", "scaffold": free_doc(2)}, weight=8, spec=spec_nocr)
        kd = 3
    else:
        for cfg in (JS, CM):
            _sharded(jobs, {"cfg": cfg, "mode": "block", "scaffold": free_doc(4, "\n")}, weight=10, spec=spec_nocr)
            _sharded(jobs, {"cfg": cfg, "mode": "parse", "scaffold": free_doc(3, "\n")}, weight=30, spec=spec_nocr)
            _sharded(jobs, {"cfg": cfg, "mode": "inline", "scaffold": free_doc(3)}, weight=30, spec=spec_nocr)
        kd = 4
    # delimiter runs
    dspec = {n: {"alphabet": DELIMS} for n in names}
    for first in DELIMS:
        sp = {k: dict(v) for k, v in dspec.items()}
        sp["a"] = {"alphabet": first}
        jobs.append({"harness": "stream", "params": {"cfg": JS, "mode": "inline", "scaffold": free_doc(kd), "spec": sp,
                                                      "name": f"delims-{first!r}"},
                     "weight": 9, "cpu_cap": 900 if tier == "quick" else 3000, "wall_cap": 4000})
    for sc in S.ctx_scaffolds(tier):
        for cfg in sc["cfgs"]:
            if sc.get("mode") == "inline_render":
                mode = "inline"
            else:
                # quick: block contexts on the block unit; thorough: through the whole pipeline (children included)
                mode = "block" if tier == "quick" else "parse"
            base = {"cfg": cfg, "mode": mode, "scaffold": sc["scaffold"], "name": sc["name"], "maxnest": sc.get("maxnest")}
            if sc.get("shard"):
                _sharded(jobs, base, weight=sc.get("weight", 3), spec=sc.get("spec", {}))
            else:
                base["spec"] = sc.get("spec", {})
                jobs.append({"harness": "stream", "params": base, "weight": sc.get("weight", 3),
                             "cpu_cap": 900 if tier == "quick" else 3000, "wall_cap": 4000})
    return jobs


def thorough_extra(seed):
    jobs = []
    names = "abcdefgh"
    spec_nocr = {n: dict(NOCR) for n in names}
    _sharded(jobs, {"cfg": JS, "mode": "block", "scaffold": free_doc(4, "\n")}, weight=30, spec=spec_nocr)
    _sharded(jobs, {"cfg": CM, "mode": "parse", "scaffold": free_doc(2, "\n")}, weight=10, spec=spec_nocr)
    dspec = {n: {"alphabet": DELIMS} for n in names}
    for first in DELIMS:
        sp = {k: dict(v) for k, v in dspec.items()}
        sp["a"] = {"alphabet": first}
        jobs.append({"harness": "stream", "params": {"cfg": JS, "mode": "inline", "scaffold": free_doc(4), "spec": sp, "name": f"delims4-{first!r}"}, "weight": 30})
    for sc in S.ctx_scaffolds("quick"):
        if sc.get("mode") == "block" and not sc.get("maxnest"):
            # block contexts through the whole pipeline (children included)
            jobs.append({"harness": "stream", "params": {"cfg": JS, "mode": "parse", "scaffold": sc["scaffold"], "spec": sc.get("spec", {}),
                                                          "name": sc["name"] + "-pipeline"}, "weight": 15})
    for j in jobs:
        j["cpu_cap"] = 3000
        j["wall_cap"] = 4000
    return jobs
