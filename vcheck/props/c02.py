"""C02 — token streams are well nested, correctly levelled and tree-constructible."""
from __future__ import annotations

from .. import scaffolds as S
from ..engine_ch import Free, Harness
from ..mdutil import build_doc, exc_record, free_doc, get_md, pipeline_nn, scaffold_frees, shard_extras
from ..oracles.stream import check_stream, check_tree
from ..sym import no_tracing

EXPLANATION = (
    "The real pipeline (block parser, inline parser, core rules; normalize skipped on CR/NUL-free input) is executed "
    "symbolically; on every path the returned stream is checked by a bracket-matching/level/flag/children oracle and "
    "SyntaxTreeNode is built from it."
)
BOUNDS = {
    "quick": "pipeline FREE(3)+newline (js-default) and parseInline FREE(2); delimiter alphabet FREE(4); CTX scaffolds "
             "(block: 2 free characters, inline: 1); nesting scaffolds with symbolic maxNesting 1..4",
    "thorough": "pipeline FREE(4), parseInline FREE(3), delimiter alphabet FREE(5), CTX with 2 free characters everywhere, x {js-default, commonmark}",
}
OUTSIDE = "delimiter interactions needing more than 5 characters; linkify core rule (library absent); documents beyond the scaffolds"
ASSUMPTIONS = ["sources are CR/NUL free (normalize, verified in C17, is skipped)",
               "the synthetic wrapper token returned by parseInline is exempt from the block-flag clause"]

DELIMS = "*_~a \\[]()!`"


def _free(params):
    frees = scaffold_frees(params["scaffold"], params.get("spec", {}))
    if params.get("maxnest"):
        frees.append(Free("mn", kind="int", lo=1, hi=params["maxnest"]))
    return frees


def _prepare(params):
    get_md(params["cfg"])


def _run(params, values):
    md = get_md(params["cfg"])
    src = build_doc(params["scaffold"], values)
    inline_mode = params["mode"] == "inline"
    recs = []
    saved = None
    if "mn" in values:
        saved = md.options["maxNesting"]
        md.options["maxNesting"] = values["mn"]
    try:
        try:
            toks, env = pipeline_nn(md, src, inline_mode=inline_mode)
        except Exception as e:
            return [exc_record(e, params["mode"])], "raised"
    finally:
        if saved is not None:
            md.options["maxNesting"] = saved
    if inline_mode:
        # wrapper token exempt; its children are an inline stream
        if len(toks) != 1 or toks[0].type != "inline":
            recs.append({"key": "parseInline-shape", "where": "top"})
        else:
            check_stream(toks[0].children or [], where="inline", top_block=False, recs=recs)
            check_stream(toks, where="top", top_block=None, recs=recs, depth_limit=0)
    else:
        check_stream(toks, where="top", top_block=True, recs=recs)
    check_tree(toks, recs)
    obs = [(t.type, t.level, [(c.type, c.level) for c in (t.children or [])]) for t in toks]
    return recs, obs


HARNESSES = {
    "stream": Harness("stream", _free, _run, prepare=_prepare,
                      functions=("ParserCore.process (minus normalize)", "ParserBlock.parse", "ParserInline.parse",
                                 "balance_pairs", "emphasis", "strikethrough", "fragments_join", "text_join",
                                 "SyntaxTreeNode.__init__")),
}

JS = S.JS
CM = S.CM
NOCR = {"exclude": "\r\0"}


def _sharded(jobs, base, var="a", weight=1, spec=None):
    for name, extra in shard_extras(var):
        p = dict(base)
        sp = {k: dict(v) for k, v in (spec or {}).items()}
        sp[var] = dict(sp.get(var, {}), extra=extra)
        p["spec"] = sp
        p["shard"] = name
        jobs.append({"harness": "stream", "params": p, "weight": weight, "cpu_cap": 900, "wall_cap": 1500})


def jobs(tier, seed):
    jobs = []
    names = "abcdefgh"
    spec_nocr = {n: dict(NOCR) for n in names}
    kb = 3 if tier == "quick" else 4
    ki = 2 if tier == "quick" else 3
    kd = 4 if tier == "quick" else 5
    for cfg in ((JS,) if tier == "quick" else (JS, CM)):
        _sharded(jobs, {"cfg": cfg, "mode": "parse", "scaffold": free_doc(kb, "\n")}, weight=10, spec=spec_nocr)
        _sharded(jobs, {"cfg": cfg, "mode": "inline", "scaffold": free_doc(ki)}, weight=8, spec=spec_nocr)
    # delimiter runs
    dspec = {n: {"alphabet": DELIMS} for n in names}
    for first in DELIMS:
        sp = {k: dict(v) for k, v in dspec.items()}
        sp["a"] = {"alphabet": first}
        jobs.append({"harness": "stream", "params": {"cfg": JS, "mode": "inline", "scaffold": free_doc(kd), "spec": sp,
                                                      "name": f"delims-{first!r}"},
                     "weight": 9, "cpu_cap": 900, "wall_cap": 1500})
    for sc in S.ctx_scaffolds(tier):
        for cfg in sc["cfgs"]:
            mode = "inline" if sc.get("mode") == "inline_render" else "parse"
            base = {"cfg": cfg, "mode": mode, "scaffold": sc["scaffold"], "name": sc["name"], "maxnest": sc.get("maxnest")}
            if sc.get("shard"):
                _sharded(jobs, base, weight=sc.get("weight", 3), spec=sc.get("spec", {}))
            else:
                base["spec"] = sc.get("spec", {})
                jobs.append({"harness": "stream", "params": base, "weight": sc.get("weight", 3), "cpu_cap": 900, "wall_cap": 1500})
    return jobs
