"""C12 — a parse depends only on configuration, source and env: no hidden shared state."""
from __future__ import annotations

import copy

from .. import scaffolds as S
from ..engine_ch import Free, Harness
from ..mdutil import exc_record
from ..sym import no_tracing, realize

EXPLANATION = (
    "Bounded symbolic histories on two live instances X (commonmark) and Y (js-default): each step is a symbolic selector into a menu of 14 "
    "API calls (render/parse/parseInline with env omitted/fresh/shared, enable/disable, option assignment by item and by attribute, "
    "add_render_rule, constructing a third instance, mutating a preset dict); one document carries a free character.  Afterwards X's and Y's "
    "probe renders must equal those of fresh instances on which only the configuration steps addressed to them are replayed, a fresh default "
    "instance must behave like a pristine one, the shared preset table must be unchanged, and references resolve only through a shared env."
)
BOUNDS = {"quick": "all histories of 3 steps over the 14-call menu (solver-chosen), concrete documents", "thorough": "all histories of 4 steps; histories of 2 steps starting with a parse/render step with 1 free character in the processed document"}
OUTSIDE = "histories longer than 3; plugins holding their own state; concurrent use (C13)"
ASSUMPTIONS = ["probe documents are fixed (they exercise references, links, containers, emphasis, tables, fences, typographic text)"]

PROBES = ["[r] *e* ~~s~~ `c`\n\n> - a\n>\n> b\n\nx|y\n-|-\n1|2\n\n***\n\n```py\nz\n```\n\n<b>\"q\"</b>  \nw\n", "# h\n\n[q]: /v\n\n[q] ![q]\n"]
DOC_REFS = "[r]: /u 't'\n\n[r] and [s]\n\n[s]: /w\n"
STEPS = 14


def _free(params):
    fr = [Free("a", exclude="\r\0")] if params.get("free_char") else []
    for s in range(params["k"]):
        fr.append(Free(f"s{s}", kind="int", lo=0, hi=STEPS - 1))
    return fr


def _hr_rule(self, tokens, idx, options, env):
    return "<hr class=\"custom\">\n"


def _apply_config(md, which):
    if which == 4:
        md.disable("emphasis")
    elif which == 5:
        md.enable("table", True)
    elif which == 6:
        md.options["breaks"] = True
    elif which == 7:
        md.options.xhtmlOut = False
    elif which == 8:
        md.add_render_rule("hr", _hr_rule)
    elif which == 12:
        md.options["langPrefix"] = "l-"
    elif which == 13:
        md.disable(["blockquote", "list"])


# step -> (target instance, is configuration)
TARGET = {0: "X", 1: "X", 2: "X", 3: "Y", 4: "X", 5: "Y", 6: "X", 7: "Y", 8: "X", 9: "Z", 10: "P", 11: "X", 12: "Y", 13: "Y"}
CONFIG = (4, 5, 6, 7, 8, 12, 13)


def _fresh():
    from markdown_it import MarkdownIt

    return MarkdownIt("commonmark"), MarkdownIt("js-default")


def _prepare(params):
    from markdown_it import MarkdownIt

    _PRISTINE.clear()
    _PRISTINE["default"] = [MarkdownIt().render(p) for p in PROBES]
    import markdown_it.main as mm

    _PRISTINE["presets"] = copy.deepcopy(mm._PRESETS)


_PRISTINE: dict = {}


def _run(params, values):
    from markdown_it import MarkdownIt, presets
    import markdown_it.main as mm

    with no_tracing():
        x, y = _fresh()
    shared_env: dict = {}
    shared_used = False
    a = values.get("a", "z")
    docA = "*x* [r] " + a + " `y`\n\n- " + a + "\n"
    trace = []
    import contextlib

    # concrete documents: every call below is a concrete computation once the step selector is realised -> native speed
    native = contextlib.nullcontext if params.get("free_char") else no_tracing
    sel = [realize(values[f"s{s}"]) for s in range(params["k"])]
    try:
        _native_cm = native()
        _native_cm.__enter__()
        for s in range(params["k"]):
            st = sel[s]
            trace.append(st)
            if st == 0:
                x.render(docA)
            elif st == 1:
                x.render(DOC_REFS, {})
            elif st == 2:
                x.parse(DOC_REFS, shared_env)
                shared_used = True
            elif st == 3:
                y.render(docA)
            elif st in CONFIG:
                _apply_config(x if TARGET[st] == "X" else y, st)
            elif st == 9:
                with no_tracing():
                    z = MarkdownIt("zero", {"html": True, "maxNesting": 3})
                z.enable(["emphasis", "link"])
                z.render(docA)
            elif st == 10:
                d = presets.commonmark.make()
                d["options"]["html"] = False
                d["components"]["block"]["rules"].remove("list")
                d2 = presets.js_default.make()
                d2["options"]["maxNesting"] = 1
            elif st == 11:
                x.parseInline(docA, {})
        # probes
        with no_tracing():
            fx, fy = _fresh()
        for st in trace:
            if st in CONFIG:
                _apply_config(fx if TARGET[st] == "X" else fy, st)
        recs = []
        outs = []
        for p in PROBES:
            hx, hfx = x.render(p), fx.render(p)
            hy, hfy = y.render(p), fy.render(p)
            if hx != hfx:
                recs.append({"key": "history-dependent-result", "instance": "X"})
            if hy != hfy:
                recs.append({"key": "history-dependent-result", "instance": "Y"})
            # env omitted vs fresh empty mapping
            if x.render(p, {}) != hx:
                recs.append({"key": "env-omitted-differs-from-fresh-env", "instance": "X"})
            outs.append((hx, hy))
        with no_tracing():
            d = MarkdownIt()
        for i, p in enumerate(PROBES):
            if d.render(p) != _PRISTINE["default"][i]:
                recs.append({"key": "fresh-instance-not-pristine"})
        if mm._PRESETS != _PRISTINE["presets"]:
            recs.append({"key": "shared-presets-mutated"})
        # references travel only through a shared env
        r_shared = x.render("[r]\n", shared_env)
        resolved = "<a href" in r_shared
        if resolved != shared_used:
            recs.append({"key": "reference-travel", "detail": f"resolved={resolved} shared_env_used={shared_used}"})
        if "<a href" in x.render("[r]\n") or "<a href" in y.render("[s]\n", {}):
            recs.append({"key": "reference-leak-without-env"})
    except Exception as e:
        _native_cm.__exit__(None, None, None)
        return [exc_record(e, "history")], "raised"
    _native_cm.__exit__(None, None, None)
    return recs, [trace, outs]


HARNESSES = {
    "history": Harness("history", _free, _run, prepare=_prepare,
                       functions=("MarkdownIt.__init__/configure/set/enable/disable/add_render_rule/parse/render/parseInline", "presets.*.make",
                                  "OptionsDict", "StateCore", "RendererHTML")),
}


def jobs(tier, seed):
    jobs = []
    # sharded by the first step; quick: histories of 2 steps with concrete documents (the solver chooses the history);
    # thorough: histories of 3 steps, and histories of 2 steps with a free character in the processed document
    for s0 in range(STEPS):
        if tier == "quick":
            jobs.append({"harness": "history", "params": {"k": 3, "first": s0}, "weight": 5, "cpu_cap": 3000, "wall_cap": 4000})
        else:
            jobs.append({"harness": "history", "params": {"k": 4, "first": s0}, "weight": 30, "cpu_cap": 9000, "wall_cap": 10000})
            if s0 in (0, 3, 9, 11):
                jobs.append({"harness": "history", "params": {"k": 2, "first": s0, "free_char": True}, "weight": 60, "cpu_cap": 9000, "wall_cap": 10000})
    return jobs


# shard: first step fixed by a precondition
_orig_free = _free


def _free_sharded(params):
    fr = _orig_free(params)
    if "first" in params:
        for f in fr:
            if f.name == "s0":
                f.lo = f.hi = params["first"]
    return fr


HARNESSES["history"].free = _free_sharded


def thorough_extra(seed):
    jobs = []
    for s0 in range(STEPS):
        jobs.append({"harness": "history", "params": {"k": 4, "first": s0}, "weight": 30, "cpu_cap": 9000, "wall_cap": 10000})
        if s0 in (0, 3, 9, 11):
            jobs.append({"harness": "history", "params": {"k": 2, "first": s0, "free_char": True}, "weight": 60, "cpu_cap": 9000, "wall_cap": 10000, "path_cap": 120})
    return jobs
