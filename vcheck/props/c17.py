"""C17 — equivalent encodings parse identically: line endings, NUL, structural tabs."""
from __future__ import annotations

from .. import scaffolds as S
from ..engine_ch import Free, Harness
from ..mdutil import deep_equal, block_parse, build_doc, exc_record, free_doc, get_md, scaffold_frees, shard_extras, stream_view
from ..sym import no_tracing, realize

EXPLANATION = (
    "(1) the real normalize core rule on symbolic text against a character-loop reference, its position in the live rule table, and metamorphic "
    "pipeline runs (LF vs CRLF/CR per line, NUL vs U+FFFD) compared on token dicts incl. maps and on HTML; (2a) block unit on documents over a "
    "structural alphabet vs the column-exact space expansion of each line's leading whitespace; (2b) one-line documents made of container "
    "segments whose blank runs are symbolic over {space, tab} vs their space twins."
)
BOUNDS = {
    "quick": "(1) normalize on 3 free characters; 4 documents with 1 free character and 2 line breaks whose spelling (LF/CRLF/CR) is symbolic per break; (2a) 3 free characters "
             "over {space, tab, >, -, 1, ., x, newline}; (2b) 10 segment layouts, blank runs of 1-2 symbolic characters",
    "thorough": "(1) 4 free characters; (2a) 4 free characters; (2b) 16 layouts, runs of 1-3 characters, second line added",
}
OUTSIDE = "tabs that are not structural (inside text); more than three container segments; blank runs wider than 4 columns (statement bound)"
ASSUMPTIONS = ["(1) mixed encodings: a lone CR is never directly followed by an LF-spelled break (that pair is one CRLF)", "(2a)/(2b): leading whitespace of verbatim block lines and of inline-content continuation lines is ignored (statement)",
               "(2b): every blank run expands to 1-4 columns"]

JS = S.JS
CM = S.CM
TABALPHA = " \t>-1.x\n"


# ---------------------------------------------------------------- (1) normalize


def norm_reference(s: str) -> str:
    out = ""
    i = 0
    n = len(s)
    while i < n:
        ch = s[i]
        if ch == "\r":
            out = out + "\n"
            if i + 1 < n and s[i + 1] == "\n":
                i += 1
        elif ch == "\0":
            out = out + "�"
        else:
            out = out + ch
        i += 1
    return out


def _norm_free(params):
    return [Free("abcdefgh"[i]) for i in range(params["k"])]


def _norm_prepare(params):
    get_md(JS)


def _norm_run(params, values):
    from markdown_it.rules_core import normalize
    from markdown_it.rules_core.state_core import StateCore

    md = get_md(JS)
    s = "".join(values["abcdefgh"[i]] for i in range(params["k"]))
    st = StateCore(s, md, {})
    try:
        normalize(st)
    except Exception as e:
        return [exc_record(e, "normalize")], "raised"
    recs = []
    if st.src != norm_reference(s):
        recs.append({"key": "normalize-differs-from-reference"})
    if "\r" in st.src or "\0" in st.src:
        recs.append({"key": "cr-or-nul-survives-normalize"})
    return recs, st.src


def _order_run(params, values):
    """normalize runs first in every configuration (read from the live rule table)."""
    from ..mdutil import build_md

    recs = []
    for cfg in (S.CM, S.JS, S.ZERO, {"preset": "gfm-like", "options": {"linkify": False}}):
        md = build_md(cfg)
        from markdown_it.rules_core import normalize

        rules = md.core.ruler.getRules("")
        if not rules or rules[0] is not normalize:
            recs.append({"key": "normalize-not-first", "cfg": cfg.get("preset")})
    return recs, "order"


NL = ["\n", "\r\n", "\r"]


def _le_free(params):
    fr = scaffold_frees(params["scaffold"], params.get("spec", {}))
    for i in range(params["nlines"]):
        fixed = params.get("nl0") if i == 0 else None
        fr.append(Free(f"nl{i}", kind="int", lo=0 if fixed is None else fixed, hi=2 if fixed is None else fixed))
    return fr


def _le_prepare(params):
    get_md(params["cfg"])


def _check_no_cr(tokens, recs):
    for t in tokens:
        if "\r" in t.content or "\0" in t.content:
            recs.append({"key": "cr-or-nul-in-token-content", "ttype": t.type})
            return
        if t.children:
            _check_no_cr(t.children, recs)


def _le_run(params, values):
    md = get_md(params["cfg"])
    parts = params["scaffold"]
    base = ""
    var = ""
    li = 0
    for p in parts:
        if p == "<NL>":
            base = base + "\n"
            var = var + NL[realize(values[f"nl{li}"])]
            li += 1
        else:
            s = p if isinstance(p, str) else values[p["v"]]
            base = base + s
            var = var + s
    if norm_reference(var) != base:
        # a lone CR directly followed by an LF-spelled break reads as ONE CRLF: not a re-encoding of `base`
        return [], "assume: variant is not a re-encoding of the base document"
    try:
        t1 = md.parse(base)
        h1 = md.renderer.render(t1, md.options, {})
        t2 = md.parse(var)
        h2 = md.renderer.render(t2, md.options, {})
    except Exception as e:
        return [exc_record(e, "pipeline")], "raised"
    recs = []
    if not deep_equal(stream_view(t1), stream_view(t2)):
        recs.append({"key": "line-ending-changes-tokens"})
    if h1 != h2:
        recs.append({"key": "line-ending-changes-html"})
    _check_no_cr(t2, recs)
    return recs, h2


def _nul_free(params):
    return scaffold_frees(params["scaffold"], params.get("spec", {}))


def _nul_run(params, values):
    md = get_md(params["cfg"])
    a = build_doc([("\0" if p == "<NUL>" else p) for p in params["scaffold"]], values)
    b = build_doc([("�" if p == "<NUL>" else p) for p in params["scaffold"]], values)
    try:
        t1, t2 = md.parse(a), md.parse(b)
        h1, h2 = md.renderer.render(t1, md.options, {}), md.renderer.render(t2, md.options, {})
    except Exception as e:
        return [exc_record(e, "pipeline")], "raised"
    recs = []
    if not deep_equal(stream_view(t1), stream_view(t2)) or h1 != h2:
        recs.append({"key": "nul-differs-from-replacement-char"})
    _check_no_cr(t1, recs)
    return recs, h1


# ---------------------------------------------------------------- (2) tabs


def expand_leading(doc: str) -> str:
    """Column-exact space expansion of each physical line's leading whitespace."""
    out = ""
    for k, line in enumerate(doc.split("\n")):
        if k:
            out = out + "\n"
        col = 0
        i = 0
        while i < len(line) and (line[i] == " " or line[i] == "\t"):
            col = col + 1 if line[i] == " " else col + 4 - col % 4
            i += 1
        out = out + " " * col + line[i:]
    return out


VERBATIM = ("code_block", "fence", "html_block")


def _lstrip_lines(s: str) -> str:
    return "\n".join(x.lstrip(" \t") for x in s.split("\n"))


def compare_blocks(t1, t2, recs, key):
    if len(t1) != len(t2):
        recs.append({"key": key, "what": "token-count", "detail": f"{[t.type for t in t1]} vs {[t.type for t in t2]}"})
        return
    for a, b in zip(t1, t2):
        for f in ("type", "tag", "nesting", "level", "markup", "info", "hidden"):
            if getattr(a, f) != getattr(b, f):
                if f == "info" and a.type == "fence":
                    continue
                recs.append({"key": key, "what": f, "ttype": a.type})
                return
        if a.map != b.map:
            recs.append({"key": key, "what": "map", "ttype": a.type})
            return
        if dict(a.attrs or {}) != dict(b.attrs or {}):
            recs.append({"key": key, "what": "attrs", "ttype": a.type})
            return
        ca, cb = a.content, b.content
        if a.type in VERBATIM or a.type == "inline":
            ca, cb = _lstrip_lines(ca), _lstrip_lines(cb)
        if ca != cb:
            recs.append({"key": key, "what": "content", "ttype": a.type})
            return


def _tab_free(params):
    return scaffold_frees(params["scaffold"], params.get("spec", {}))


def _tab_prepare(params):
    get_md(params["cfg"])


def _tab_run(params, values):
    md = get_md(params["cfg"])
    doc = build_doc(params["scaffold"], values)
    twin = expand_leading(doc)
    try:
        t1, _ = block_parse(md, doc)
        t2, _ = block_parse(md, twin)
    except Exception as e:
        return [exc_record(e, "block")], "raised"
    recs = []
    compare_blocks(t1, t2, recs, "leading-tab-not-equivalent-to-spaces")
    return recs, [(t.type, t.level, t.map, t.content) for t in t1]


def _seg_free(params):
    fr = []
    for si, seg in enumerate(params["segments"]):
        for k in range(seg["run"]):
            fr.append(Free(f"b{si}_{k}", alphabet=" \t"))
    return fr


def _seg_run(params, values):
    md = get_md(params["cfg"])
    doc = ""
    twin = ""
    col = 0
    for si, seg in enumerate(params["segments"]):
        lead = " " * seg.get("indent", 0) + seg["marker"]
        doc = doc + lead
        twin = twin + lead
        col += len(lead)
        start = col
        for k in range(seg["run"]):
            ch = values[f"b{si}_{k}"]
            doc = doc + ch
            col = col + 1 if ch == " " else col + 4 - col % 4
        w = col - start
        if w > 4:
            return [], "assume: blank run wider than 4 columns"
        twin = twin + " " * w
    doc = doc + params.get("leaf", "x") + "\n" + params.get("tail", "")
    twin = twin + params.get("leaf", "x") + "\n" + params.get("tail", "")
    try:
        t1, _ = block_parse(md, doc)
        t2, _ = block_parse(md, twin)
    except Exception as e:
        return [exc_record(e, "block")], "raised"
    recs = []
    compare_blocks(t1, t2, recs, "structural-tab-not-equivalent-to-spaces")
    if recs:
        # narrow class for known-findings: tab directly after the '>' of a quote nested in another quote
        markers = [s["marker"] for s in params["segments"]]
        recs[0]["layout"] = "".join(markers)
    return recs, [(t.type, t.level, t.map, t.content) for t in t1]


HARNESSES = {
    "normalize": Harness("normalize", _norm_free, _norm_run, prepare=_norm_prepare, functions=("rules_core.normalize",)),
    "order": Harness("order", lambda p: [], _order_run, functions=("ParserCore.__init__", "MarkdownIt.configure")),
    "line_endings": Harness("line_endings", _le_free, _le_run, prepare=_le_prepare, functions=("MarkdownIt.parse", "normalize", "full pipeline", "RendererHTML")),
    "nul": Harness("nul", _nul_free, _nul_run, prepare=_le_prepare, functions=("MarkdownIt.parse", "normalize")),
    "leading_tabs": Harness("leading_tabs", _tab_free, _tab_run, prepare=_tab_prepare, functions=("StateBlock.__init__", "StateBlock.getLines", "blockquote", "list_block", "code", "fence")),
    "segments": Harness("segments", _seg_free, _seg_run, prepare=_tab_prepare, functions=("blockquote", "list_block", "StateBlock")),
}

LAYOUTS = [[">", ">", "-"], [">", "-"], ["-", ">"], ["1.", ">"], ["-", "-"], [">", ">", ">"], [">"], ["-"], ["1."], ["+", "1."],
           [">", "-", ">"], ["-", ">", "-"], ["-", "-", "-"], ["1.", "-"], [">", "1.", ">"], ["-", "1.", "-"]]


def jobs(tier, seed):
    jobs = []
    k = 3 if tier == "quick" else 4
    for kk in range(1, k + 1):
        jobs.append({"harness": "normalize", "params": {"k": kk}, "weight": 4 * kk, "cpu_cap": 3000, "wall_cap": 4000})
    jobs.append({"harness": "order", "params": {}, "weight": 1, "cpu_cap": 300, "wall_cap": 600})
    NOCR = {"exclude": "\r\0"}
    spec = {n: dict(NOCR) for n in "abcdefgh"}
    le_docs = [[{"v": "a"}, "<NL>", {"v": "b"}, "<NL>"], ["- ", {"v": "a"}, "<NL>", "<NL>", "  ", {"v": "b"}, "<NL>"],
               ["```", "<NL>", {"v": "a"}, "<NL>", "```", "<NL>", {"v": "b"}], ["> ", {"v": "a"}, "  ", "<NL>", "> b", "<NL>", "<NL>", "c"],
               ["[r]: /u", "<NL>", "'", {"v": "a"}, "<NL>", "t'", "<NL>", "<NL>", "[r]", "<NL>"], ["a|b", "<NL>", "-|-", "<NL>", {"v": "a"}, "|2", "<NL>"]]
    if tier == "quick":
        le_docs = [[{"v": "a"}, "<NL>", "b", "<NL>"], ["- a", "<NL>", "  ", {"v": "a"}, "<NL>"], ["```", "<NL>", {"v": "a"}, "<NL>", "```"], ["> ", {"v": "a"}, "<NL>", "<NL>", "b"]]
    for sc in le_docs:
        for nl0 in (0, 1, 2):
            jobs.append({"harness": "line_endings", "params": {"cfg": JS, "scaffold": sc, "nlines": sc.count("<NL>"), "spec": spec, "nl0": nl0},
                         "weight": 8, "cpu_cap": 2400, "wall_cap": 3600})
    nul_docs = [[{"v": "a"}, "<NUL>", {"v": "b"}, "\n"], ["# <NUL>", {"v": "a"}, "\n\n`<NUL>`\n"], ["[", {"v": "a"}, "<NUL>](/u<NUL>)\n"]]
    if tier == "quick":
        nul_docs = [[{"v": "a"}, "<NUL>b\n"], ["# <NUL>", {"v": "a"}, "\n\n`<NUL>`\n"]]  # the link document (~100 CPU-s per path) is thorough-only
    for sc in nul_docs:
        jobs.append({"harness": "nul", "params": {"cfg": JS, "scaffold": sc, "spec": {}}, "weight": 6, "cpu_cap": 2400, "wall_cap": 3600})
    kt = 3 if tier == "quick" else 4
    tspec = {n: {"alphabet": TABALPHA} for n in "abcdefgh"}
    for first in TABALPHA:
        sp = {k_: dict(v) for k_, v in tspec.items()}
        sp["a"] = {"alphabet": first}
        for suffix in (("x\n",) if tier == "quick" else ("x\n", "\n")):
            jobs.append({"harness": "leading_tabs", "params": {"cfg": JS, "scaffold": free_doc(kt, suffix), "spec": sp, "name": f"tabs-{first!r}"},
                         "weight": 8, "cpu_cap": 2400, "wall_cap": 3600})
    layouts = LAYOUTS[:10] if tier == "quick" else LAYOUTS
    for lay in layouts:
        for run in ((1, 2) if tier == "quick" else (1, 2, 3)):
            if run == 3 and len(lay) == 3:
                continue
            for indent in ((0,) if tier == "quick" else (0, 2)):
                segs = [{"marker": m, "run": run, "indent": indent if i == 0 else 0} for i, m in enumerate(lay)]
                jobs.append({"harness": "segments", "params": {"cfg": JS, "segments": segs, "name": "".join(lay)}, "weight": 2 + run,
                             "cpu_cap": 1200, "wall_cap": 1800})
                if tier == "thorough":
                    jobs.append({"harness": "segments", "params": {"cfg": JS, "segments": segs, "tail": "y\n", "name": "".join(lay) + "+line"},
                                 "weight": 2 + run, "cpu_cap": 1200, "wall_cap": 1800})
    return jobs


def thorough_extra(seed):
    jobs = []
    jobs.append({"harness": "normalize", "params": {"k": 4}, "weight": 30, "cpu_cap": 9000, "wall_cap": 10000})
    NOCR = {"exclude": "\r\0"}
    spec = {n: dict(NOCR) for n in "abcdefgh"}
    for sc in ([{"v": "a"}, "<NL>", {"v": "b"}, "<NL>"], ["- ", {"v": "a"}, "<NL>", "<NL>", "  ", "b", "<NL>"],
               ["[r]: /u", "<NL>", "'", {"v": "a"}, "<NL>", "t'", "<NL>", "<NL>", "[r]", "<NL>"], ["a|b", "<NL>", "-|-", "<NL>", {"v": "a"}, "|2", "<NL>"]):
        jobs.append({"harness": "line_endings", "params": {"cfg": JS, "scaffold": sc, "nlines": sc.count("<NL>"), "spec": spec}, "weight": 20,
                     "cpu_cap": 6000, "wall_cap": 7200, "path_cap": 90})
    tspec = {n: {"alphabet": TABALPHA} for n in "abcdefgh"}
    for first in TABALPHA:
        sp = {k_: dict(v) for k_, v in tspec.items()}
        sp["a"] = {"alphabet": first}
        jobs.append({"harness": "leading_tabs", "params": {"cfg": JS, "scaffold": free_doc(4, "x\n"), "spec": sp, "name": f"tabs4-{first!r}"}, "weight": 20,
                     "cpu_cap": 6000, "wall_cap": 7200})
        jobs.append({"harness": "leading_tabs", "params": {"cfg": JS, "scaffold": free_doc(3, "\n"), "spec": sp, "name": f"tabs3nl-{first!r}"}, "weight": 8,
                     "cpu_cap": 3000, "wall_cap": 4000})
    for lay in LAYOUTS:
        for run in (1, 2, 3):
            if run == 3 and len(lay) == 3:
                continue
            for indent in (0, 2):
                segs = [{"marker": m, "run": run, "indent": indent if i == 0 else 0} for i, m in enumerate(lay)]
                if lay in LAYOUTS[:10] and run < 3 and indent == 0:
                    jobs.append({"harness": "segments", "params": {"cfg": JS, "segments": segs, "tail": "y\n", "name": "".join(lay) + "+line"}, "weight": 3,
                                 "cpu_cap": 3000, "wall_cap": 4000})
                else:
                    jobs.append({"harness": "segments", "params": {"cfg": JS, "segments": segs, "name": "".join(lay)}, "weight": 3, "cpu_cap": 3000, "wall_cap": 4000})
    return jobs
