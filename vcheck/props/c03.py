"""C03 — source maps are in range, non-empty, nested, ordered and cover the input."""
from __future__ import annotations

from .. import scaffolds as S
from ..engine_ch import Harness
from ..mdutil import block_parse, build_doc, exc_record, free_doc, get_md, scaffold_frees, shard_extras
from ..oracles.maps import check_maps

EXPLANATION = (
    "The real block parser (StateBlock + all enabled block rules) is executed symbolically on CR/NUL-free documents; "
    "on every path each token map, the inline content lines and the coverage of non-blank lines (incl. env reference maps) "
    "are checked against the symbolic source."
)
BOUNDS = {
    "quick": "block unit FREE(3)(+newline, newline among the free values) under js-default; CTX block scaffolds with 2 free characters; "
             "code-off and table-on variants of the paragraph-follow-up scaffold",
    "thorough": "FREE(4); CTX x {js-default, commonmark, code off}",
}
OUTSIDE = "documents needing more than 4 free characters beyond the scaffolds; maps of tokens produced by plugins"
ASSUMPTIONS = ["maps are written by block rules only (children/core rules do not assign maps): line numbering of the normalised input",
               "a content line may start with spaces that replace a partially consumed tab"]


def _free(params):
    return scaffold_frees(params["scaffold"], params.get("spec", {}))


def _prepare(params):
    get_md(params["cfg"])


def _run(params, values):
    md = get_md(params["cfg"])
    src = build_doc(params["scaffold"], values)
    try:
        toks, env = block_parse(md, src)
    except Exception as e:
        return [exc_record(e, "block")], "raised"
    recs = check_maps(src, toks, env)
    obs = [(t.type, t.map, t.content if t.type == "inline" else None) for t in toks]
    return recs, obs


HARNESSES = {
    "maps": Harness("maps", _free, _run, prepare=_prepare,
                    functions=("ParserBlock.parse", "StateBlock.__init__", "StateBlock.getLines", "rules_block.*")),
}

JS = S.JS
CM = S.CM
NOCR = {"exclude": "\r\0"}
JS_NOCODE = dict(JS, disable=["code"])


def _sharded(jobs, base, var="a", weight=1, spec=None):
    for name, extra in shard_extras(var, exclude=(spec or {}).get(var, {}).get("exclude", "")):
        p = dict(base)
        sp = {k: dict(v) for k, v in (spec or {}).items()}
        sp[var] = dict(sp.get(var, {}), extra=(f"({sp[var]['extra']}) and ({extra})" if sp.get(var, {}).get("extra") else extra))
        p["spec"] = sp
        p["shard"] = name
        jobs.append({"harness": "maps", "params": p, "weight": weight, "cpu_cap": 900, "wall_cap": 1500})


def block_ctx_jobs(harness, tier, cfgs_quick, cfgs_thorough, extra_params=None):
    jobs = []
    for sc in S.ctx_scaffolds(tier):
        if sc.get("mode") != "block" or sc.get("maxnest"):
            continue
        cfgs = cfgs_quick if tier == "quick" else cfgs_thorough
        for cfg in cfgs:
            base = {"cfg": cfg, "scaffold": sc["scaffold"], "name": sc["name"], "spec": sc.get("spec", {})}
            base.update(extra_params or {})
            jobs.append({"harness": harness, "params": base, "weight": sc.get("weight", 3), "cpu_cap": 900, "wall_cap": 1500})
    return jobs


def jobs(tier, seed):
    jobs = []
    names = "abcdefgh"
    spec_nocr = {n: dict(NOCR) for n in names}
    kb = 3 if tier == "quick" else 4
    for cfg in ((JS,) if tier == "quick" else (JS, CM, JS_NOCODE)):
        for suffix in ("\n", ""):
            _sharded(jobs, {"cfg": cfg, "scaffold": free_doc(kb, suffix)}, weight=10, spec=spec_nocr)
    jobs += block_ctx_jobs("maps", tier, [JS], [JS, CM, JS_NOCODE])
    # code rule off: indented lines become paragraphs
    spec2 = {"a": dict(NOCR), "b": dict(NOCR)}
    for prefix in ("    ", "a\n    ", "- a\n\n      "):
        jobs.append({"harness": "maps", "params": {"cfg": JS_NOCODE, "scaffold": [prefix, {"v": "a"}, {"v": "b"}, "\n"],
                                                    "spec": spec2, "name": "nocode"},
                     "weight": 3, "cpu_cap": 900, "wall_cap": 1500})
    return jobs


def thorough_extra(seed):
    jobs = []
    spec_nocr = {n: dict(NOCR) for n in "abcdefgh"}
    _sharded(jobs, {"cfg": JS, "scaffold": free_doc(4, "\n")}, weight=30, spec=spec_nocr)
    _sharded(jobs, {"cfg": JS_NOCODE, "scaffold": free_doc(3, "\n")}, weight=10, spec=spec_nocr)
    _sharded(jobs, {"cfg": CM, "scaffold": free_doc(3, "")}, weight=10, spec=spec_nocr)
    jobs += block_ctx_jobs("maps", "quick", [CM, JS_NOCODE], [])
    for sc in S.ctx_scaffolds("thorough"):
        if sc.get("mode") == "block" and sc["name"].endswith("-nl") and not sc.get("maxnest"):
            jobs.append({"harness": "maps", "params": {"cfg": JS, "scaffold": sc["scaffold"], "spec": sc.get("spec", {}), "name": sc["name"]}, "weight": 4})
    for j in jobs:
        j["cpu_cap"] = 3000
        j["wall_cap"] = 4000
    return jobs
