"""C09 — backslash-escaping (and character references) make any text literal in every inline context."""
from __future__ import annotations

import html as _html

from .. import scaffolds as S
from ..engine_ch import Free, Harness
from ..mdutil import exc_record, get_md, render_nn, shard_extras
from ..sym import no_tracing

EXPLANATION = (
    "Pipeline (normalize skipped) executed symbolically on ctx(esc(t)) for symbolic t: esc puts a backslash before every ASCII "
    "punctuation character (decided per character by the solver); the HTML must be the context's frame around escapeHtml(t).  The frame "
    "is obtained from the real renderer on a sentinel.  Reference form: numeric references with one free digit, named ones from a menu, "
    "expected value from html.unescape (stdlib)."
)
BOUNDS = {
    "quick": "paragraph: t = 2 free characters; the other 12 contexts (heading, emphasis, strong, link text, image alt, link titles in three spellings, table head/body cell, list item, strikethrough): t = 1 free character, six of them also t = 'a'+free+'b'; image alt also under commonmark; references: 8 numeric prefixes x 1 free digit in 4 contexts, 22 named references in 2 contexts",
    "thorough": 'all quick jobs (core) plus the deeper families of thorough_extra() (not core): more free characters, the commonmark preset, the contexts the quick tier had to shed (DESIGN.md 10.5)',
}
OUTSIDE = "t longer than 3; arbitrary code points through the reference form; typographer on; entity names beyond the menu"
ASSUMPTIONS = ["t single-line without CR/NUL, t == t.strip() (except link-title context)", "typographer off",
               "table-cell context: js-default preset"]

JS = S.JS
CM = S.CM
PUNCT = "!\"#$%&'()*+,-./:;<=>?@[\\]^_`{|}~"
SENT = "SENTINELQZ"

CONTEXTS = {
    "paragraph": ("{}", True),
    "emphasis": ("*{}*", True),
    "strong": ("**{}**", True),
    "link-text": ("[{}](x)", True),
    "image-alt": ("![{}](x)", True),
    "link-title": ('[a](x "{}")', True),
    "link-title-paren": ("[a](x ({}))", True),
    "ref-title": ("[a]\n\n[a]: x '{}'\n", False),
    "heading": ("# {}\n", False),
    # cells are written with the conventional padding: a cell text ending in an (escaped) backslash is then not
    # adjacent to the delimiter pipe (markdown-it, like upstream, reads `\\|` as an escaped pipe - see DESIGN.md)
    "table-cell": ("| {} | x |\n|-|-|\n", False),
    "table-body": ("| h | x |\n|-|-|\n| {} | y |\n", False),
    "list-item": ("- {}\n", False),
    "strike": ("~~{}~~", True),
}
_FRAMES: dict = {}


def esc(t: str) -> str:
    out = ""
    for ch in t:
        if ch in PUNCT:
            out = out + "\\" + ch
        else:
            out = out + ch
    return out


def frame(md, cfgkey, ctx):
    k = (cfgkey, ctx)
    if k not in _FRAMES:
        with no_tracing():
            tpl, inline = CONTEXTS[ctx]
            out = render_nn(md, tpl.format(SENT), inline_mode=inline)
            i = out.index(SENT)
            _FRAMES[k] = (out[:i], out[i + len(SENT):])
    return _FRAMES[k]


def _free(params):
    frees = []
    for i in range(params["k"]):
        frees.append(Free("abcdefgh"[i], exclude="\r\0\n", extra=params.get("extra", {}).get("abcdefgh"[i])))
    return frees


def _prepare(params):
    md = get_md(params["cfg"])
    frame(md, str(params["cfg"]), params["ctx"])


def _run(params, values):
    from markdown_it.common.utils import escapeHtml

    md = get_md(params["cfg"])
    t = params.get("pre", "") + "".join(values["abcdefgh"[i]] for i in range(params["k"])) + params.get("post", "")
    ctx = params["ctx"]
    if not ctx.startswith("link-title") and ctx != "ref-title":
        if t.strip() != t or t == "":
            return [], "assume: t has leading/trailing whitespace"
    elif t == "":
        return [], "assume: empty"
    tpl, inline = CONTEXTS[ctx]
    pre_, post_ = tpl.split("{}")
    src = pre_ + esc(t) + post_
    try:
        out = render_nn(md, src, inline_mode=inline)
    except Exception as e:
        return [exc_record(e, ctx)], "raised"
    pre, post = frame(md, str(params["cfg"]), ctx)
    exp = pre + escapeHtml(t) + post
    recs = []
    if out != exp:
        recs.append({"key": "escaped-text-not-literal", "ctx": ctx})
    return recs, out


def _ref_free(params):
    if params.get("digit_alphabet"):
        return [Free("d", alphabet=params["digit_alphabet"])]
    return []


def _ref_run(params, values):
    from markdown_it.common.utils import escapeHtml

    md = get_md(params["cfg"])
    ref = params["ref"].replace("?", values["d"]) if "d" in values else params["ref"]
    with no_tracing():
        pass
    ctx = params["ctx"]
    tpl, inline = CONTEXTS[ctx]
    pre_, post_ = tpl.split("{}")
    src = pre_ + "a" + ref + "b" + post_
    try:
        out = render_nn(md, src, inline_mode=inline)
    except Exception as e:
        return [exc_record(e, ctx)], "raised"
    # expected character: computed on the realised reference by the stdlib (independent of /repo)
    from ..sym import realize

    cref = realize(ref)
    with no_tracing():
        ch = _html.unescape(cref)
        cp = ord(ch) if len(ch) == 1 else None
        excluded = ch == cref or (cp is not None and (cp < 32 or 127 <= cp < 160 or cp == 0xFFFD or 0xD800 <= cp <= 0xDFFF))
    if excluded:
        return [], "assume: reference denotes nothing or an excluded code point"
    pre, post = frame(md, str(params["cfg"]), ctx)
    exp = pre + "a" + escapeHtml(ch) + "b" + post
    recs = []
    if out != exp:
        recs.append({"key": "reference-not-literal", "ctx": ctx})
    return recs, out


HARNESSES = {
    "escape": Harness("escape", _free, _run, prepare=_prepare,
                      functions=("rules_inline.escape", "rules_core.text_join", "rules_inline.image", "rules_inline.link",
                                 "helpers.parseLinkTitle", "common.utils.unescapeAll", "RendererHTML", "rules_block.table", "rules_block.heading")),
    "reference": Harness("reference", _ref_free, _ref_run, prepare=_prepare,
                         functions=("rules_inline.entity", "common.utils.replaceEntityPattern", "unescapeAll", "RendererHTML")),
}

NUM_REFS = [("&#4?;", "0123456789"), ("&#6?;", "0123456789"), ("&#9?;", "0123456789"), ("&#12?;", "0123456"), ("&#x2?;", "0123456789abcdefABCDEF"),
            ("&#X3?;", "0123456789abcdef"), ("&#x5?;", "0123456789ABCDEF"), ("&#xA?;", "0123456789abcdef"), ("&#x20?;", "0123456789abcdef"),
            ("&#x1F60?;", "0123456789")]
NAMED = ["&amp;", "&lt;", "&gt;", "&quot;", "&copy;", "&nbsp;", "&AElig;", "&Dcaron;", "&frac34;", "&HilbertSpace;", "&DifferentialD;",
         "&ClockwiseContourIntegral;", "&ngE;", "&auml;", "&ouml;", "&apos;", "&lbrack;", "&ast;", "&lowbar;", "&grave;", "&bsol;", "&vert;"]


def _sharded(jobs, harness, base, var="a", weight=1):
    for name, extra in shard_extras(var, exclude="\r\0\n"):
        p = dict(base)
        p["extra"] = dict(p.get("extra", {}), **{var: extra})
        p["shard"] = name
        jobs.append({"harness": harness, "params": p, "weight": weight, "cpu_cap": 1500, "wall_cap": 2400})


def jobs(tier, seed):
    jobs = []
    if tier == "quick":
        _sharded(jobs, "escape", {"cfg": JS, "ctx": "paragraph", "k": 2}, weight=9)
        for ctx in CONTEXTS:
            if ctx == "paragraph":
                continue
            jobs.append({"harness": "escape", "params": {"cfg": JS, "ctx": ctx, "k": 1}, "weight": 5, "cpu_cap": 900, "wall_cap": 1500})
            if ctx in ("image-alt", "link-text", "link-title", "heading", "table-cell", "emphasis"):
                jobs.append({"harness": "escape", "params": {"cfg": JS, "ctx": ctx, "k": 1, "pre": "a", "post": "b"},
                             "weight": 5, "cpu_cap": 900, "wall_cap": 1500})
        jobs.append({"harness": "escape", "params": {"cfg": CM, "ctx": "image-alt", "k": 1}, "weight": 5, "cpu_cap": 900, "wall_cap": 1500})
        ref_ctx = ["paragraph", "image-alt", "link-title", "link-text"]
        nums = NUM_REFS[:8]
    else:
        for cfg in (JS, CM):
            for ctx in CONTEXTS:
                if cfg is CM and ctx in ("table-cell", "table-body", "strike"):
                    continue
                _sharded(jobs, "escape", {"cfg": cfg, "ctx": ctx, "k": 2}, weight=9)
        _sharded(jobs, "escape", {"cfg": JS, "ctx": "paragraph", "k": 3}, weight=30)
        ref_ctx = [c for c in CONTEXTS]
        nums = NUM_REFS
    for ctx in ref_ctx:
        for ref, alpha in nums:
            jobs.append({"harness": "reference", "params": {"cfg": JS, "ctx": ctx, "ref": ref, "digit_alphabet": alpha},
                         "weight": 2, "cpu_cap": 600, "wall_cap": 1200})
    # named references: concrete (one path each) - grouped per context via a free index would fork identically; kept as single-path jobs
    for ctx in (ref_ctx if tier == "thorough" else ["paragraph", "image-alt"]):
        jobs.append({"harness": "named", "params": {"cfg": JS, "ctx": ctx}, "weight": 1, "cpu_cap": 600, "wall_cap": 1200})
    return jobs


def _named_free(params):
    return [Free("i", kind="int", lo=0, hi=len(NAMED) - 1)]


def _named_run(params, values):
    from ..sym import realize

    i = realize(values["i"])
    return _ref_run(dict(params, ref=NAMED[i]), {})


HARNESSES["named"] = Harness("named", _named_free, _named_run, prepare=_prepare,
                             functions=("rules_inline.entity", "common.entities", "RendererHTML"))


def thorough_extra(seed):
    jobs = []
    for ctx in ("emphasis", "link-text", "image-alt", "link-title", "heading", "table-cell"):
        _sharded(jobs, "escape", {"cfg": JS, "ctx": ctx, "k": 2}, weight=12)
    for ctx in CONTEXTS:
        if ctx not in ("table-cell", "table-body", "strike"):
            jobs.append({"harness": "escape", "params": {"cfg": CM, "ctx": ctx, "k": 1}, "weight": 4})
        for ref, alpha in NUM_REFS:
            if ctx not in ("paragraph", "image-alt", "link-title", "link-text") or (ref, alpha) in NUM_REFS[8:]:
                jobs.append({"harness": "reference", "params": {"cfg": JS, "ctx": ctx, "ref": ref, "digit_alphabet": alpha}, "weight": 2})
        if ctx not in ("paragraph", "image-alt"):
            jobs.append({"harness": "named", "params": {"cfg": JS, "ctx": ctx}, "weight": 2})
    for j in jobs:
        j["cpu_cap"] = 3000
        j["wall_cap"] = 4000
    return jobs
