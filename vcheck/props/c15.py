"""C15 — tokens survive serialisation and tree conversion; rendering is repeatable."""
from __future__ import annotations

from .. import scaffolds as S
from ..engine_ch import Free, Harness
from ..mdutil import deep_equal, build_doc, exc_record, free_doc, get_md, pipeline_nn, scaffold_frees, shard_extras, stream_view
from ..sym import realize

EXPLANATION = (
    "Pipeline executed symbolically; on every path each token goes through as_dict(as_upstream=u, children=c) -> from_dict (u, c symbolic), the "
    "copy must equal the token and render to the same HTML; SyntaxTreeNode(tokens).to_tokens() must return the identical objects, walk() must "
    "follow stream order, parent/children/sibling links must be mutually consistent; rendering twice must give equal output and leave token dicts equal. "
    "Plus a direct job with symbolic token fields."
)
BOUNDS = {
    "quick": "pipeline FREE(2)+newline (js-default); 10 CTX scaffolds (ordered list start, nested image, empty inline, table alignment, "
             "store_labels/inline_definitions meta, fence info) with 1 free character; direct tokens with symbolic type/tag/content/attrs(int)/meta/children",
    "thorough": "FREE(3); CTX with 2 free characters; both presets",
}
OUTSIDE = "float attribute values; custom dict_factory/filter/meta_serializer; tokens created by plugins"
ASSUMPTIONS = ["CR/NUL-free sources"]

JS = S.JS
CM = S.CM
JSX = {"preset": "js-default", "options": {"inline_definitions": True, "store_labels": True}}
NOCR = {"exclude": "\r\0"}


def check_roundtrip(tokens, md, env, u, c, recs):
    from markdown_it.token import Token

    for t in tokens:
        d = t.as_dict(as_upstream=u, children=c)
        if c is False and t.children:
            # children kept as Token objects when not converted
            pass
        t2 = Token.from_dict(dict(d))
        if t2 != t:
            recs.append({"key": "dict-roundtrip-not-equal", "ttype": t.type, "as_upstream": u, "children": c})
            return
    copy = [type(t).from_dict(dict(t.as_dict(as_upstream=u, children=True))) for t in tokens]
    h1 = md.renderer.render(tokens, md.options, env)
    h2 = md.renderer.render(copy, md.options, env)
    if h1 != h2:
        recs.append({"key": "dict-roundtrip-renders-differently", "as_upstream": u})
    return h1


def check_tree(tokens, recs):
    from markdown_it.tree import SyntaxTreeNode

    root = SyntaxTreeNode(tokens)
    flat = root.to_tokens()
    if len(flat) != len(tokens) or any(a is not b for a, b in zip(flat, tokens)):
        recs.append({"key": "tree-flatten-not-identical"})
    # walk order = stream order (for nodes that own tokens: opening token or the single token)
    order = []
    for node in root.walk():
        if node.token is not None:
            order.append(node.token)
        elif node.nester_tokens is not None:
            order.append(node.nester_tokens.opening)
    pos = {id(t): i for i, t in enumerate(_flatten_all(tokens))}
    idx = [pos.get(id(t), -1) for t in order]
    if -1 in idx or idx != sorted(idx):
        recs.append({"key": "tree-walk-order"})
    for node in root.walk():
        ch = node.children
        for i, k in enumerate(ch):
            if k.parent is not node:
                recs.append({"key": "tree-parent-link"})
                return
            if k.siblings is not None and list(k.siblings) != list(ch):
                recs.append({"key": "tree-siblings"})
                return
            if (k.previous_sibling is not (ch[i - 1] if i > 0 else None)) or (k.next_sibling is not (ch[i + 1] if i + 1 < len(ch) else None)):
                recs.append({"key": "tree-next-previous"})
                return


def _flatten_all(tokens):
    out = []
    for t in tokens:
        out.append(t)
        if t.children:
            out.extend(_flatten_all(t.children))
    return out


def _free(params):
    return scaffold_frees(params["scaffold"], params.get("spec", {})) + [Free("u", kind="bool"), Free("c", kind="bool")]


def _prepare(params):
    get_md(params["cfg"])


def _run(params, values):
    md = get_md(params["cfg"])
    src = build_doc(params["scaffold"], values)
    recs = []
    try:
        toks, env = pipeline_nn(md, src)
        before = stream_view(toks)
        h1 = check_roundtrip(toks, md, env, True if values["u"] else False, True if values["c"] else False, recs)
        check_tree(toks, recs)
        h2 = md.renderer.render(toks, md.options, env)
        mid = stream_view(toks)
        h3 = md.renderer.render(toks, md.options, env)
        after = stream_view(toks)
    except Exception as e:
        return [exc_record(e, "roundtrip")], "raised"
    if not (h1 == h2 == h3):
        recs.append({"key": "render-not-repeatable"})
    if not deep_equal(mid, after):
        recs.append({"key": "render-mutates-tokens"})
    return recs, h3


def _tok_free(params):
    return [Free("ty", kind="int", lo=0, hi=3), Free("a", exclude=""), Free("b", exclude=""), Free("n", kind="int", lo=-5, hi=5),
            Free("kids", kind="int", lo=0, hi=2), Free("u", kind="bool"), Free("c", kind="bool"), Free("hid", kind="bool")]


def _tok_run(params, values):
    from markdown_it.token import Token

    ty = ["text", "inline", "image", "fence"][realize(values["ty"])]
    kids_sel = realize(values["kids"])
    kid = Token("text", "", 0, content=values["b"], level=1)
    kids = [None, [], [kid]][kids_sel]
    t = Token(ty, values["a"], 0, attrs={"start": values["n"], "k": values["a"]}, map=[0, 1], level=0, children=kids,
              content=values["a"] + values["b"], markup=values["b"], info=values["a"], meta={"m": values["n"], "s": values["b"]},
              block=True, hidden=values["hid"])
    recs = []
    try:
        u = True if values["u"] else False
        c = True if values["c"] else False
        d = t.as_dict(as_upstream=u, children=c)
        t2 = Token.from_dict(dict(d))
    except Exception as e:
        return [exc_record(e, "token")], "raised"
    if t2 != t:
        recs.append({"key": "dict-roundtrip-not-equal", "ttype": ty, "as_upstream": u, "children": c})
    if u and d["attrs"] is not None and not isinstance(d["attrs"], list):
        recs.append({"key": "upstream-attrs-format"})
    return recs, [ty, kids_sel, u, c]


HARNESSES = {
    "roundtrip": Harness("roundtrip", _free, _run, prepare=_prepare,
                         functions=("Token.as_dict", "Token.from_dict", "SyntaxTreeNode.__init__/to_tokens/walk/siblings", "RendererHTML.render")),
    "token": Harness("token", _tok_free, _tok_run, functions=("Token.as_dict", "Token.from_dict", "convert_attrs")),
}

CTX = [
    ("olist-start", JS, [{"v": "a"}, "7. x\n"]), ("nested-image", JS, ["![a ![", {"v": "a"}, "](y)](x)\n"]), ("empty-inline", JS, ["# \n\n", {"v": "a"}, "\n"]),
    ("table-align", JS, ["a|b\n:-|-:\n1|", {"v": "a"}, "\n"]), ("labels", JSX, ["[a]: /x 't'\n\n[x][a] ![i][a] z", {"v": "a"}, "\n"]),
    ("fence-info", JS, ["```", {"v": "a"}, " b\nc\n```\n"]), ("emph-link", JS, ["*[t](u)* `", {"v": "a"}, "` <b>\n"]),
    ("html-on", CM, ["<div>\n", {"v": "a"}, "</div>\n\nx <i>y</i>\n"]), ("hard-soft", JS, ["a  \nb\n", {"v": "a"}, "\n"]),
    ("tight-loose", JS, ["- a\n- ", {"v": "a"}, "\n\n  b\n"]), ("equal-siblings", JS, ["a\nb\n", {"v": "a"}, "\n\n*e* *e* `c` `c`\n\n---\n\n---\n"]),
]


def _sharded(jobs, base, var="a", weight=1, spec=None):
    for name, extra in shard_extras(var, exclude=(spec or {}).get(var, {}).get("exclude", "")):
        p = dict(base)
        sp = {k: dict(v) for k, v in (spec or {}).items()}
        sp[var] = dict(sp.get(var, {}), extra=(f"({sp[var]['extra']}) and ({extra})" if sp.get(var, {}).get("extra") else extra))
        p["spec"] = sp
        p["shard"] = name
        jobs.append({"harness": "roundtrip", "params": p, "weight": weight, "cpu_cap": 1500, "wall_cap": 2400})


def jobs(tier, seed):
    jobs = []
    spec = {n: dict(NOCR) for n in "abcdefgh"}
    k = 2 if tier == "quick" else 3
    for cfg in ((JS,) if tier == "quick" else (JS, CM)):
        _sharded(jobs, {"cfg": cfg, "scaffold": free_doc(k, "\n"), "name": "free"}, weight=8, spec=spec)
    from ..mdutil import shard_job

    for name, cfg, sc in CTX:
        job = {"harness": "roundtrip", "params": {"cfg": cfg, "scaffold": sc, "spec": spec, "name": name}, "weight": 4, "cpu_cap": 1200, "wall_cap": 1800}
        if name in ("equal-siblings", "emph-link", "olist-start", "nested-image", "tight-loose", "table-align"):
            jobs += shard_job(job)  # > 200 CPU-s as one job
        else:
            jobs.append(job)
    jobs.append({"harness": "token", "params": {}, "weight": 5, "cpu_cap": 1200, "wall_cap": 1800})
    return jobs


def thorough_extra(seed):
    jobs = []
    spec = {n: dict(NOCR) for n in "abcdefgh"}
    _sharded(jobs, {"cfg": CM, "scaffold": free_doc(2, "\n"), "name": "free-cm"}, weight=8, spec=spec)
    for name, cfg, sc in CTX:
        sc2 = [p for q in sc for p in ([q, {"v": "b"}] if q == {"v": "a"} else [q])]
        if name in ("olist-start", "nested-image", "empty-inline", "fence-info", "hard-soft"):
            jobs.append({"harness": "roundtrip", "params": {"cfg": cfg, "scaffold": sc2, "spec": spec, "name": name + "-2free"}, "weight": 20})
    for j in jobs:
        j["cpu_cap"] = 6000
        j["wall_cap"] = 7200
    return jobs
