"""C10 — rule and option switches have exactly their documented effect."""
from __future__ import annotations

from .. import scaffolds as S
from ..engine_ch import Free, Harness
from ..mdutil import build_doc, build_md, deep_equal, exc_record, free_doc, get_md, pipeline_nn, scaffold_frees, shard_extras, stream_view
from ..sym import no_tracing, realize

EXPLANATION = (
    "Pipeline executed symbolically under pairs of configurations: (1) a rule disabled => none of its token kinds may appear; (2) table / "
    "strikethrough switched on => identical token dicts on inputs without the trigger characters; (3) inline_definitions/store_labels on => "
    "identical streams after deleting definition tokens and label metadata, identical env, HTML identical up to line breaks after a tag; "
    "(4) the three option-setting routes give identical options and identical probe parses."
)
BOUNDS = {
    "quick": '(1) each of 17 optional rules off on js-default: its 2-3 construct scaffolds with 1 free character; zero preset on 3 and html=False on 2 free characters + newline; (2) table/strikethrough on vs off on 2 free characters + newline and three scaffolds, trigger characters excluded; (3) 4 reference scaffolds with 1 free character, the two options switched together or opposite (symbolic); (4) symbolic option index (9 options) x symbolic value x 3 routes (attribute route where an accessor exists), preset left pristine',
    "thorough": 'all quick jobs (core) plus the deeper families of thorough_extra() (not core): more free characters, the commonmark preset, the contexts the quick tier had to shed (DESIGN.md 10.5)',
}
OUTSIDE = "plugins' own options; rule subsets of size > 1 beyond the presets (pairs in thorough)"
ASSUMPTIONS = ["rule -> token-kind table written from the documentation", "CR/NUL-free sources"]

JS = S.JS
CM = S.CM
ZERO = S.ZERO
NOCR = {"exclude": "\r\0"}

# rule -> predicate on a token (documented products of the rule)
def _types(*names):
    return lambda t: t.type in names


PRODUCES = {
    "table": _types("table_open", "table_close", "thead_open", "thead_close", "tbody_open", "tbody_close", "tr_open", "tr_close",
                    "th_open", "th_close", "td_open", "td_close"),
    "code": _types("code_block"),
    "fence": _types("fence"),
    "blockquote": _types("blockquote_open", "blockquote_close"),
    "hr": _types("hr"),
    "list": _types("bullet_list_open", "bullet_list_close", "ordered_list_open", "ordered_list_close", "list_item_open", "list_item_close"),
    "html_block": _types("html_block"),
    "heading": lambda t: t.type in ("heading_open", "heading_close") and t.markup.startswith("#"),
    "lheading": lambda t: t.type in ("heading_open", "heading_close") and t.markup in ("=", "-"),
    "newline": _types("softbreak"),  # hardbreak is also produced by the escape rule (backslash + newline)
    "backticks": _types("code_inline"),
    "strikethrough": _types("s_open", "s_close"),
    "emphasis": _types("em_open", "em_close", "strong_open", "strong_close"),
    "link": lambda t: t.type in ("link_open", "link_close") and t.markup != "autolink" and t.info != "auto",
    "image": _types("image"),
    "autolink": lambda t: t.type in ("link_open", "link_close") and t.markup == "autolink",
    "html_inline": _types("html_inline"),
    "html-option": _types("html_inline", "html_block"),
    "zero": lambda t: t.type not in ("paragraph_open", "paragraph_close", "inline", "text"),
}

CONSTRUCT = {
    "table": [["a|b\n-|", {"v": "a"}, "\n1|2\n"], ["a|b\n", {"v": "a"}, "|-\n"]],
    "code": [["    ", {"v": "a"}, "\n"], ["- a\n\n      ", {"v": "a"}, "\n"]],
    "fence": [["``", {"v": "a"}, "\nx\n```\n"], ["~~~", {"v": "a"}, "\n"]],
    "blockquote": [[{"v": "a"}, " a\n"], ["- ", {"v": "a"}, " a\n"]],
    "hr": [["**", {"v": "a"}, "\n"], ["a\n--", {"v": "a"}, "\n"]],
    "list": [[{"v": "a"}, " a\n"], ["1", {"v": "a"}, " a\n"], ["> ", {"v": "a"}, " a\n"]],
    "html_block": [["<", {"v": "a"}, "iv>\n"], ["<!-", {"v": "a"}, " x -->\n"]],
    "heading": [[{"v": "a"}, " a\n"], ["#", {"v": "a"}, " a\n"]],
    "lheading": [["a\n", {"v": "a"}, "\n"], ["a\n=", {"v": "a"}, "\n"]],
    "newline": [["a", {"v": "a"}, "\nb\n"], ["a ", {"v": "a"}, "\nb\n"]],
    "backticks": [["`a", {"v": "a"}, "\n"], [{"v": "a"}, "a`\n"]],
    "strikethrough": [["~~a~", {"v": "a"}, "\n"], ["~", {"v": "a"}, "a~~\n"]],
    "emphasis": [["*a", {"v": "a"}, "\n"], ["_", {"v": "a"}, "a__\n"]],
    "link": [["[a](x", {"v": "a"}, "\n"], ["[a]", {"v": "a"}, "b]\n\n[b]: /u\n"]],
    "image": [["![a](x", {"v": "a"}, "\n"], [{"v": "a"}, "[a](x)\n"]],
    "autolink": [["<http://a", {"v": "a"}, "\n"], ["<a@b.c", {"v": "a"}, "\n"]],
    "html_inline": [["a <b", {"v": "a"}, "\n"], ["a <", {"v": "a"}, "b>\n"]],
}


def _walk_forbidden(tokens, pred, recs, rule):
    for t in tokens:
        if pred(t):
            recs.append({"key": "construct-without-rule", "rule": rule, "ttype": t.type})
            return True
        if t.children and _walk_forbidden(t.children, pred, recs, rule):
            return True
    return False


def _free(params):
    return scaffold_frees(params["scaffold"], params.get("spec", {}))


def _prep_off(params):
    get_md(params["cfg"])


def _run_off(params, values):
    md = get_md(params["cfg"])
    src = build_doc(params["scaffold"], values)
    try:
        toks, env = pipeline_nn(md, src)
    except Exception as e:
        return [exc_record(e, "pipeline")], "raised"
    recs = []
    _walk_forbidden(toks, PRODUCES[params["rule"]], recs, params["rule"])
    if params["rule"] == "reference" and env.get("references"):
        recs.append({"key": "construct-without-rule", "rule": "reference", "ttype": "env.references"})
    return recs, [t.type for t in toks]


def _prep_ext(params):
    get_md(params["cfg"])
    get_md(params["cfg_on"])


def _run_ext(params, values):
    off = get_md(params["cfg"])
    on = get_md(params["cfg_on"])
    src = build_doc(params["scaffold"], values)
    trig = params["trigger"]
    if trig in src:
        return [], "assume: trigger present"
    try:
        t1, e1 = pipeline_nn(off, src)
        t2, e2 = pipeline_nn(on, src)
    except Exception as e:
        return [exc_record(e, "pipeline")], "raised"
    recs = []
    v1, v2 = stream_view(t1), stream_view(t2)
    if not deep_equal(v1, v2):
        recs.append({"key": "extension-not-conservative", "ext": params["ext"]})
    if not deep_equal(e1, e2):
        recs.append({"key": "extension-changes-env", "ext": params["ext"]})
    return recs, v2


def _strip_defs(view):
    out = []
    for d in view:
        if d["type"] == "definition":
            continue
        d = dict(d)
        if d.get("meta"):
            d["meta"] = {k: v for k, v in d["meta"].items() if k != "label"}
        if d.get("children"):
            d["children"] = _strip_defs(d["children"])
        out.append(d)
    return out


def _drop_lf_after_tag(h: str) -> str:
    return h.replace(">\n", ">")


def _ref_free(params):
    fr = scaffold_frees(params["scaffold"], params.get("spec", {})) + [Free("idef", kind="bool")]
    if params.get("independent"):
        fr.append(Free("slab", kind="bool"))
    return fr


def _prep_ref(params):
    get_md(params["cfg"])
    get_md(dict(params["cfg"], _twin=1))


def _run_ref(params, values):
    base = get_md(params["cfg"])
    twin = get_md(dict(params["cfg"], _twin=1))
    src = build_doc(params["scaffold"], values)
    twin.options["inline_definitions"] = values["idef"]
    twin.options["store_labels"] = values["slab"] if "slab" in values else (not values["idef"] if params.get("opposite") else values["idef"])
    try:
        try:
            t1, e1 = pipeline_nn(base, src)
            h1 = base.renderer.render(t1, base.options, e1)
            t2, e2 = pipeline_nn(twin, src)
            h2 = twin.renderer.render(t2, twin.options, e2)
        except Exception as e:
            return [exc_record(e, "pipeline")], "raised"
    finally:
        twin.options["inline_definitions"] = False
        twin.options["store_labels"] = False
    recs = []
    if not deep_equal(_strip_defs(stream_view(t2)), stream_view(t1)):
        recs.append({"key": "definitions-option-changes-tokens"})
    if not deep_equal(e1, e2):
        recs.append({"key": "definitions-option-changes-env"})
    from ..symstr import cps, replace, same
    from ..sym import no_tracing as _nt

    c1, c2 = cps(h1), cps(h2)
    with _nt():
        differs = not same(replace(c1, ">\n", ">"), replace(c2, ">\n", ">"))
    if differs:
        recs.append({"key": "definitions-option-changes-html"})
    return recs, h2


OPTS = [("html", "bool"), ("typographer", "bool"), ("breaks", "bool"), ("xhtmlOut", "bool"), ("linkify", "bool"),
        ("langPrefix", "str"), ("maxNesting", "int"), ("inline_definitions", "bool"), ("store_labels", "bool")]
ATTR_OPTS = ("maxNesting", "html", "linkify", "typographer", "quotes", "xhtmlOut", "breaks", "langPrefix", "highlight")
PROBES = ["<b>a</b> \"q\" --\nb  \nc\n\n```py\nx\n```\n\n[r]: /u\n\n[r] ![i](u)\n\n> > > - a\n\n---\n"]


def _opt_free(params):
    return [Free("oi", kind="int", lo=params.get("lo", 0), hi=params.get("hi", len(OPTS) - 1)), Free("vb", kind="bool"), Free("vs", kind="char"),
            Free("vi", kind="int", lo=1, hi=5)]


def _run_opt(params, values):
    oi = realize(values["oi"])
    name, kind = OPTS[oi]
    val = {"bool": values["vb"], "str": values["vs"], "int": values["vi"]}[kind]
    if name == "linkify":
        val = False  # the linkifier is not installed; switching it on is C01's documented ModuleNotFoundError
    with no_tracing():
        a = build_md(params["cfg"])
        b = build_md(params["cfg"])
        c = build_md(params["cfg"])
        from markdown_it import MarkdownIt

        ctor = MarkdownIt(params["cfg"]["preset"], {name: None})
    # route 1: constructor (built under tracing so the symbolic value goes through options_update)
    from markdown_it import MarkdownIt

    with no_tracing():
        pass
    r1 = MarkdownIt(params["cfg"]["preset"], {name: val})
    b.options[name] = val
    has_attr = name in ATTR_OPTS  # inline_definitions/store_labels have no attribute accessor: two routes only
    if has_attr:
        setattr(c.options, name, val)
    else:
        c.options[name] = val
    recs = []
    o1, o2, o3 = dict(r1.options), dict(b.options), dict(c.options)
    if not (o1 == o2 == o3):
        recs.append({"key": "option-routes-differ", "option": name, "what": "options mapping"})
    if has_attr and not (getattr(r1.options, name) == getattr(b.options, name) == getattr(c.options, name) == val):
        recs.append({"key": "option-routes-differ", "option": name, "what": "attribute read-back"})
    if not (r1.options[name] == b.options[name] == c.options[name] == val):
        recs.append({"key": "option-routes-differ", "option": name, "what": "item read-back"})
    # the constructor route must not leak into the shared preset: a fresh instance still has the preset's own value
    with no_tracing():
        fresh = MarkdownIt(params["cfg"]["preset"])
    if dict(fresh.options) != dict(a.options):
        recs.append({"key": "constructor-options-leak-into-preset", "option": name})
    outs = []
    for p in PROBES:
        try:
            hs = [m.render(p) for m in (r1, b, c)]
        except Exception as e:
            return [exc_record(e, "render")], "raised"
        if not (hs[0] == hs[1] == hs[2]):
            recs.append({"key": "option-routes-differ", "option": name, "what": "probe render"})
        outs.append(hs[0])
    return recs, outs


HARNESSES = {
    "rule_off": Harness("rule_off", _free, _run_off, prepare=_prep_off, functions=("MarkdownIt.disable", "Ruler.getRules", "ParserBlock", "ParserInline", "ParserCore")),
    "extension": Harness("extension", _free, _run_ext, prepare=_prep_ext, functions=("rules_block.table", "rules_inline.strikethrough", "Ruler")),
    "definitions": Harness("definitions", _ref_free, _run_ref, prepare=_prep_ref,
                           functions=("rules_block.reference", "rules_inline.link", "rules_inline.image", "RendererHTML.render")),
    "option_routes": Harness("option_routes", _opt_free, _run_opt, functions=("MarkdownIt.__init__", "MarkdownIt.configure", "OptionsDict")),
}

# free characters sit in titles, texts and following lines - never inside a label (symbolic labels cost ~27 s per path, see DESIGN.md)
REF_SCAFFOLDS = [
    ["[a]: /x '", {"v": "a"}, "'\n\n[a]\n"], ["[a]: /x\n[b]: /y \"", {"v": "a"}, "\"\n\n[a] [b]\n"], ["- [a]: /x\n\n![i", {"v": "a"}, "][a]\n"],
    ["[a]: /x\n\n[t", {"v": "a"}, "][a] [a][]\n"], ["> [a]: /x\n> ", {"v": "a"}, "\n\n[a][a]\n"], ["[a]: /x\n[a]: /y\n\n", {"v": "a"}, " [a]\n"],
]


def _sharded(jobs, harness, base, var="a", weight=1, spec=None):
    for name, extra in shard_extras(var, exclude=(spec or {}).get(var, {}).get("exclude", "")):
        p = dict(base)
        sp = {k: dict(v) for k, v in (spec or {}).items()}
        sp[var] = dict(sp.get(var, {}), extra=(f"({sp[var]['extra']}) and ({extra})" if sp.get(var, {}).get("extra") else extra))
        p["spec"] = sp
        p["shard"] = name
        jobs.append({"harness": harness, "params": p, "weight": weight, "cpu_cap": 1200, "wall_cap": 1800})


def jobs(tier, seed):
    jobs = []
    spec = {n: dict(NOCR) for n in "abcdefgh"}
    presets = [JS] if tier == "quick" else [JS, CM]
    for base in presets:
        for rule, scs in CONSTRUCT.items():
            if base is CM and rule in ("table", "strikethrough"):
                continue
            cfg = dict(base, disable=[rule])
            for sc in scs:
                sp_ = spec
                if any(isinstance(p, str) and p.endswith("](x") for p in sc) or rule == "autolink":
                    from ..mdutil import urlish

                    sp_ = dict(spec, a=dict(NOCR, extra=urlish("a")))
                jobs.append({"harness": "rule_off", "params": {"cfg": cfg, "rule": rule, "scaffold": sc, "spec": sp_, "name": f"off-{rule}"},
                             "weight": 3, "cpu_cap": 900, "wall_cap": 1500})
            if tier == "thorough":
                _sharded(jobs, "rule_off", {"cfg": cfg, "rule": rule, "scaffold": free_doc(3, "\n"), "name": f"off-{rule}-free"}, weight=10, spec=spec)
    k = 2 if tier == "quick" else 3
    _sharded(jobs, "rule_off", {"cfg": ZERO, "rule": "zero", "scaffold": free_doc(k + 1, "\n"), "name": "zero"}, weight=5, spec=spec)
    _sharded(jobs, "rule_off", {"cfg": JS, "rule": "html-option", "scaffold": free_doc(k, "\n"), "name": "html-off"}, weight=6, spec=spec)
    jobs.append({"harness": "rule_off", "params": {"cfg": JS, "rule": "html-option", "scaffold": ["<", {"v": "a"}, "b>\n"] if tier == "quick" else ["<", {"v": "a"}, {"v": "b"}, ">\n"], "spec": spec, "name": "html-off-tag"},
                 "weight": 4, "cpu_cap": 900, "wall_cap": 1500})
    jobs.append({"harness": "rule_off", "params": {"cfg": dict(CM, options={"html": False}), "rule": "html-option",
                                                    "scaffold": ["<div", {"v": "a"}, ">\nx\n"] if tier == "quick" else ["<div", {"v": "a"}, ">\n", {"v": "b"}, "\n"], "spec": spec, "name": "html-off-block"},
                 "weight": 4, "cpu_cap": 900, "wall_cap": 1500})
    # (2) conservative extensions
    kx = 2 if tier == "quick" else 3
    _sharded(jobs, "extension", {"cfg": CM, "cfg_on": dict(CM, enable=["table"]), "ext": "table", "trigger": "|",
                                 "scaffold": free_doc(kx, "\n"), "name": "ext-table"}, weight=10, spec=spec)
    _sharded(jobs, "extension", {"cfg": CM, "cfg_on": dict(CM, enable=["strikethrough"]), "ext": "strikethrough", "trigger": "~~",
                                 "scaffold": free_doc(kx, "\n"), "name": "ext-strike"}, weight=10, spec=spec)
    for sc in (["a\n", {"v": "a"}, "-\nc\n"], ["~", {"v": "a"}, "~ x ~y~\n"], ["- a\n  ", {"v": "a"}, "-\n"]):
        jobs.append({"harness": "extension", "params": {"cfg": CM, "cfg_on": dict(CM, enable=["table", "strikethrough"]), "ext": "both",
                                                         "trigger": "|", "scaffold": sc, "spec": spec, "name": "ext-ctx"},
                     "weight": 4, "cpu_cap": 900, "wall_cap": 1500})
    # (3) definitions options
    for si, sc in enumerate(REF_SCAFFOLDS):
        if tier == "quick" and si in (3, 5):
            continue  # ~30 CPU-s per path (shortcut/collapsed references next to a symbolic character): thorough only
        for base in presets:
            # quick: the two options switched together (symbolic on/off) or opposite to each other; thorough: independently
            p = {"cfg": base, "scaffold": sc, "spec": spec, "name": "defs"}
            if tier == "thorough":
                p["independent"] = True
            elif si % 2:
                p["opposite"] = True
            jobs.append({"harness": "definitions", "params": p, "weight": 8, "cpu_cap": 2400, "wall_cap": 3600, "path_cap": 90})
    # (4) option routes
    for base in (JS, CM):
        for lo, hi in ((0, 2), (3, 5), (6, 8)):
            jobs.append({"harness": "option_routes", "params": {"cfg": base, "name": "routes", "lo": lo, "hi": hi}, "weight": 12, "cpu_cap": 2400, "wall_cap": 3600,
                         "path_cap": 240})
    return jobs


def thorough_extra(seed):
    jobs = []
    spec = {n: dict(NOCR) for n in "abcdefgh"}
    for rule, scs in CONSTRUCT.items():
        if rule in ("table", "strikethrough"):
            continue
        cfg = dict(CM, disable=[rule])
        for sc in scs:
            sp_ = spec
            if any(isinstance(p, str) and p.endswith("](x") for p in sc) or rule == "autolink":
                from ..mdutil import urlish

                sp_ = dict(spec, a=dict(NOCR, extra=urlish("a")))
            jobs.append({"harness": "rule_off", "params": {"cfg": cfg, "rule": rule, "scaffold": sc, "spec": sp_, "name": f"off-{rule}-cm"}, "weight": 3})
    for rule in ("table", "list", "heading", "emphasis", "link", "blockquote"):
        _sharded(jobs, "rule_off", {"cfg": dict(JS, disable=[rule]), "rule": rule, "scaffold": free_doc(2, "\n"), "name": f"off-{rule}-free"}, weight=8, spec=spec)
    _sharded(jobs, "extension", {"cfg": CM, "cfg_on": dict(CM, enable=["table"]), "ext": "table", "trigger": "|",
                                 "scaffold": free_doc(3, "\n"), "name": "ext-table3"}, weight=30, spec=spec)
    for sc in REF_SCAFFOLDS:
        for base in (JS, CM):
            jobs.append({"harness": "definitions", "params": {"cfg": base, "scaffold": sc, "spec": spec, "name": "defs-independent", "independent": True},
                         "weight": 12, "path_cap": 90})
    for j in jobs:
        j["cpu_cap"] = 3000
        j["wall_cap"] = 4000
    return jobs
