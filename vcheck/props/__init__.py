from __future__ import annotations

import importlib


def module(prop: str):
    return importlib.import_module(f"vcheck.props.{prop.lower()}")


def get_harness(prop: str, name: str):
    return module(prop).HARNESSES[name]
