"""C01 — totality: parse/render/parseInline/renderInline return normally on every input."""
from __future__ import annotations

from ..engine_ch import Free, Harness
from ..mdutil import (render_nn, block_parse, build_doc, exc_record, free_doc, get_md, scaffold_frees,
                      shard_extras)
from .. import scaffolds as S

EXPLANATION = (
    "Each job symbolically executes the real block parser / inline parser / full pipeline / HTML renderer "
    "of /repo on a document made of a concrete scaffold plus free characters ranging over all Unicode scalar "
    "values; CrossHair+z3 exhaust every feasible path; the assertion is 'no exception escapes'."
)
BOUNDS = {
    "quick": 'block unit: 3 free characters (with and without final newline) under js-default; inline unit: 2 free characters; pipeline (normalize included): 2 free characters under commonmark, js-default, zero; 18 block contexts (containers, EOF shapes, table/fence/html/reference follow-ups, quote without blank, tab-indented list) with 2 free characters, the paragraph follow-up also under 6 leave-one-out configurations; 19 inline contexts with 1 free character (URL slots: ASCII + 7 non-ASCII representatives); nesting scaffolds with symbolic maxNesting 1..4',
    "thorough": 'all quick jobs (core) plus the deeper families of thorough_extra() (not core): more free characters, the commonmark preset, the contexts the quick tier had to shed (DESIGN.md 10.5)',
}
OUTSIDE = ("documents needing more free characters away from every scaffold; linkifier (library not installed); "
           "CLI byte decoding (reduced by the codec contract errors='ignore' to render on str); hangs beyond the per-path cap are "
           "reported as inconclusive, not as proven termination")
ASSUMPTIONS = ["block/inline unit jobs feed sources without CR/NUL (normalize is covered by the pipeline jobs and by C17's unit)"]


def _free(params):
    spec = dict(params.get("spec", {}))
    frees = scaffold_frees(params["scaffold"], spec)
    if params.get("maxnest"):
        frees.append(Free("mn", kind="int", lo=1, hi=params["maxnest"]))
    return frees


def _prepare(params):
    get_md(params["cfg"])


def _run(params, values):
    md = get_md(params["cfg"])
    src = build_doc(params["scaffold"], values)
    mode = params["mode"]
    recs = []
    obs = None
    saved = None
    if "mn" in values:
        saved = md.options["maxNesting"]
        md.options["maxNesting"] = values["mn"]
    try:
        try:
            if mode == "block":
                toks, env = block_parse(md, src)
                obs = [t.type for t in toks]
            elif mode == "inline":
                toks = []
                md.inline.parse(src, md, {}, toks)
                obs = [t.type for t in toks]
            elif mode == "parse":
                toks = md.parse(src)
                obs = [t.type for t in toks]
            elif mode == "render":
                obs = md.render(src)
            elif mode == "parseInline":
                toks = md.parseInline(src)
                obs = [t.type for t in (toks[0].children or [])]
            elif mode == "renderInline":
                obs = md.renderInline(src)
            elif mode == "inline_render":
                obs = render_nn(md, src, inline_mode=True)
            elif mode == "render_nn":
                obs = render_nn(md, src)
            else:
                raise AssertionError(mode)
        except Exception as e:  # CrossHair's own control-flow exceptions are BaseException
            recs.append(exc_record(e, mode))
            obs = "raised"
    finally:
        if saved is not None:
            md.options["maxNesting"] = saved
    return recs, obs


HARNESSES = {
    "total": Harness(
        "total", _free, _run, prepare=_prepare,
        functions=("MarkdownIt.parse", "MarkdownIt.render", "MarkdownIt.parseInline", "MarkdownIt.renderInline",
                   "ParserBlock.parse", "ParserInline.parse", "RendererHTML.render", "all rules of the enabled chains"),
    ),
}

CM = {"preset": "commonmark"}
JS = {"preset": "js-default"}
ZERO = {"preset": "zero"}
GFM = {"preset": "gfm-like", "options": {"linkify": False}, "disable": ["linkify"]}
NOCRNUL = {"exclude": "\r\0"}


def _sharded(jobs, base, var="a", weight=1, spec=None):
    for name, extra in shard_extras(var, exclude=(spec or {}).get(var, {}).get("exclude", "")):
        p = dict(base)
        sp = {k: dict(v) for k, v in (spec or {}).items()}
        sp.setdefault(var, {})
        sp[var] = dict(sp[var], extra=(f"({sp[var]['extra']}) and ({extra})" if sp[var].get("extra") else extra))
        p["spec"] = sp
        p["shard"] = name
        jobs.append({"harness": "total", "params": p, "weight": weight, "cpu_cap": 900, "wall_cap": 1500})


def jobs(tier, seed):
    jobs = []
    names = "abcdefgh"
    spec_nocr = {names[i]: dict(NOCRNUL) for i in range(8)}
    kb = 3 if tier == "quick" else 4
    ki = 2 if tier == "quick" else 3
    kp = 2 if tier == "quick" else 3
    # block unit (js-default = all block rules incl. table; commonmark in thorough)
    for cfg in ((JS,) if tier == "quick" else (JS, CM)):
        for suffix in ("\n", ""):
            _sharded(jobs, {"cfg": cfg, "mode": "block", "scaffold": free_doc(kb, suffix)}, weight=10, spec=spec_nocr)
    # inline unit
    for cfg in ((JS,) if tier == "quick" else (JS, CM)):
        _sharded(jobs, {"cfg": cfg, "mode": "inline", "scaffold": free_doc(ki)}, weight=8, spec=spec_nocr)
    # pipeline (normalize included: CR/NUL allowed)
    for cfg in (CM, JS, ZERO, GFM):
        for mode in ("render", "renderInline"):
            if tier == "quick":
                if mode == "renderInline" or cfg is GFM:
                    continue
                _sharded(jobs, {"cfg": cfg, "mode": mode, "scaffold": free_doc(kp)}, weight=6)
            else:
                _sharded(jobs, {"cfg": cfg, "mode": mode, "scaffold": free_doc(kp)}, weight=20)
    # CTX scaffolds
    for sc in S.ctx_scaffolds(tier):
        for cfg in sc["cfgs"]:
            base = {"cfg": cfg, "mode": sc.get("mode", "render"), "scaffold": sc["scaffold"],
                    "name": sc["name"], "maxnest": sc.get("maxnest")}
            if sc.get("shard"):
                _sharded(jobs, base, weight=sc.get("weight", 3), spec=sc.get("spec", {}))
            else:
                base["spec"] = sc.get("spec", {})
                jobs.append({"harness": "total", "params": base, "weight": sc.get("weight", 3),
                             "cpu_cap": 900, "wall_cap": 1500})
    return jobs


def thorough_extra(seed):
    """Deeper than quick: four free characters on the block unit, three on the inline unit, commonmark preset, two free characters
    in the inline contexts."""
    jobs = []
    names = "abcdefgh"
    spec_nocr = {names[i]: dict(NOCRNUL) for i in range(8)}
    _sharded(jobs, {"cfg": JS, "mode": "block", "scaffold": free_doc(4, "\n")}, weight=30, spec=spec_nocr)
    _sharded(jobs, {"cfg": CM, "mode": "block", "scaffold": free_doc(3, "\n")}, weight=10, spec=spec_nocr)
    _sharded(jobs, {"cfg": JS, "mode": "inline", "scaffold": free_doc(3)}, weight=30, spec=spec_nocr)
    _sharded(jobs, {"cfg": GFM, "mode": "render", "scaffold": free_doc(2)}, weight=8)
    for sc in S.ctx_scaffolds("thorough"):
        if sc.get("mode") == "inline_render" and sc["name"] in ("link-text", "image-alt", "emph", "code-span", "angle", "entity", "autolink-mail"):
            base = {"cfg": JS, "mode": "inline_render", "scaffold": sc["scaffold"], "name": sc["name"] + "-2free"}
            _sharded(jobs, base, weight=20, spec=sc.get("spec", {}))
        elif sc.get("mode") == "block" and sc["name"].endswith("-nl") and sc["name"][:-3] in S.QUICK_BLOCK:
            jobs.append({"harness": "total", "params": {"cfg": CM, "mode": "block", "scaffold": sc["scaffold"], "spec": sc.get("spec", {}),
                                                          "name": sc["name"] + "-cm"}, "weight": 4})
    for j in jobs:
        j["cpu_cap"] = 3000
        j["wall_cap"] = 4000
    return jobs
