"""C07 — top-level blocks are parsed independently: documents compose by concatenation."""
from __future__ import annotations

from .. import scaffolds as S
from ..engine_ch import Free, Harness
from ..mdutil import block_parse, build_doc, exc_record, free_doc, get_md, scaffold_frees, shard_extras
from ..oracles.maps import nlines

EXPLANATION = (
    "Block unit, metamorphic: A, B and A+blank+B are parsed symbolically on each path; the side conditions of the statement are decided by "
    "the real parser (A ends closed :<=> blocks(A+'\\nzz\\n') = blocks(A) ++ paragraph(zz)); block tokens of the concatenation must equal "
    "A's followed by B's with maps shifted."
)
BOUNDS = {
    "quick": 'A = 2 free characters + newline with 4 concrete B; 7 concrete A (paragraph, tight list, nested list, quote with lazy line, setext, table, nested containers) with B = 2 free characters + newline; 15 A (one free character each) x {paragraph, list} and paragraph x table with a free character in B; js-default',
    "thorough": 'all quick jobs (core) plus the deeper families of thorough_extra() (not core): more free characters, the commonmark preset, the contexts the quick tier had to shed (DESIGN.md 10.5)',
}
OUTSIDE = "larger free A/B; children of inline tokens (excluded by the statement)"
ASSUMPTIONS = ["no tab/CR/NUL", "B[0] is not a space or newline", "A ends closed (decided by the real parser)",
               "seam exclusion: last block of A and first block of B are lists of the same type and marker"]

JS = S.JS
CM = S.CM
NOTAB = {"exclude": "\t\r\0"}
FIELDS = ("type", "tag", "nesting", "level", "markup", "info", "hidden", "content", "block")


def _views(tokens, shift=0):
    out = []
    for t in tokens:
        m = None if t.map is None else [t.map[0] + shift, t.map[1] + shift]
        out.append(tuple(getattr(t, f) for f in FIELDS) + (m, dict(t.attrs or {})))
    return out


def _free(params):
    return scaffold_frees(params["a"], params.get("spec", {})) + [
        f for f in scaffold_frees(params["b"], params.get("spec", {})) if f.name not in {p["v"] for p in params["a"] if isinstance(p, dict)}]


def _prepare(params):
    get_md(params["cfg"])


def _last_top(tokens):
    for t in reversed(tokens):
        if t.level == 0 and t.nesting in (1, 0):
            return t
    return None


def _run(params, values):
    md = get_md(params["cfg"])
    a = build_doc(params["a"], values)
    b = build_doc(params["b"], values)
    if b[0] == " " or b[0] == "\n":
        return [], "assume: B starts with a blank"
    try:
        ta, _ = block_parse(md, a)
        na = nlines(a)
        probe, _ = block_parse(md, a + "\nzz\n")
        va = _views(ta)
        # "A ends closed": a paragraph after a blank line starts a NEW top-level block (the probe ends with a level-0 paragraph "zz" on
        # its own line and has exactly one more top-level block than A).  A's own tokens are NOT compared here: that is the conclusion
        # of the property, and comparing them would let a leak hide itself behind the assumption.
        top_a = sum(1 for t in ta if t.level == 0 and t.nesting >= 0)
        top_p = sum(1 for t in probe if t.level == 0 and t.nesting >= 0)
        if len(probe) < 3 or top_p != top_a + 1 or probe[-3].type != "paragraph_open" \
                or probe[-3].map != [na + 1, na + 2] or probe[-2].content != "zz" or probe[-3].level != 0:
            return [], "assume: A does not end closed"
        tb, _ = block_parse(md, b)
        la = _last_top(ta)
        fb = tb[0] if tb else None
        if la is not None and fb is not None and la.type in ("bullet_list_open", "ordered_list_open") and la.type == fb.type \
                and la.markup == fb.markup:
            return [], "assume: list+list seam"
        tab, _ = block_parse(md, a + "\n" + b)
    except Exception as e:
        return [exc_record(e, "block")], "raised"
    recs = []
    exp = va + _views(tb, shift=na + 1)
    got = _views(tab)
    if len(exp) != len(got):
        recs.append({"key": "concat-token-count", "detail": f"{len(got)} vs {len(va)}+{len(tb)}"})
    else:
        CONT = ("bullet_list_open", "ordered_list_open", "list_item_open", "blockquote_open")
        for i in range(len(exp)):
            if exp[i] != got[i] and i < len(va) and exp[i][0] in CONT and exp[i][:-2] == got[i][:-2] and exp[i][-1] == got[i][-1]:
                # a container that ends at the end of A may count the separating blank line in its map (existing behaviour,
                # allowed by C03: containers need not end on a non-blank line); everything else must be identical
                em, gm = exp[i][-2], got[i][-2]
                if em is not None and gm is not None and em[0] == gm[0] and em[1] == na and gm[1] == na + 1:
                    continue
            if exp[i] != got[i]:
                fld = "?"
                for k, f in enumerate(FIELDS + ("map", "attrs")):
                    if exp[i][k] != got[i][k]:
                        fld = f
                        break
                recs.append({"key": "concat-token-differs", "ttype": exp[i][0], "field": fld,
                             "side": "A" if i < len(va) else "B"})
                break
    return recs, [(g[0], g[3], g[-2]) for g in got]


HARNESSES = {
    "concat": Harness("concat", _free, _run, prepare=_prepare,
                      functions=("ParserBlock.parse", "ParserBlock.tokenize", "StateBlock", "list_block", "blockquote", "lheading",
                                 "reference", "table", "paragraph")),
}


def H(v):
    return {"v": v}


A_MENU = [
    ("para", ["a", H("a"), "\n"]), ("tight-list", ["- a\n- ", H("a"), "\n"]), ("loose-list", ["- a\n\n- ", H("a"), "\n"]),
    ("olist", ["1. a\n2. ", H("a"), "\n"]), ("quote-lazy", ["> a\n", H("a"), "\n"]), ("fence", ["```\n", H("a"), "\n```\n"]),
    ("heading", ["# a", H("a"), "\n"]), ("setext", ["a\n", H("a"), "=\n"]), ("hr", ["**", H("a"), "\n"]), ("code", ["    a", H("a"), "\n"]),
    ("table", ["a|b\n-|-\n", H("a"), "|2\n"]), ("refdef", ["[r]: /u '", H("a"), "'\n"]), ("html", ["<div>\n", H("a"), "\n"]),
    ("nested", ["> - a\n>   ", H("a"), "\n"]), ("list-code", ["- a\n\n      ", H("a"), "\n"]), ("nested-list", ["- a\n  - ", H("a"), "\n"]),
]
B_MENU = [
    ("para", ["b", H("b"), "\n"]), ("list", ["- ", H("b"), "\n"]), ("star-list", ["* b\n* ", H("b"), "\n"]), ("olist", ["1. ", H("b"), "\n"]),
    ("quote", ["> ", H("b"), "\n"]), ("fence", ["```\n", H("b"), "\n```\n"]), ("heading", ["#", H("b"), " b\n"]),
    ("setext", ["b\n", H("b"), "\n"]), ("table", ["c|d\n-|-\n", H("b"), "\n"]), ("refdef", ["[s]: /w '", H("b"), "'\n"]),
    ("html", ["<p>", H("b"), "\n"]), ("hr", ["--", H("b"), "\n"]),
]
CONC_B = ["b\n", "- b\n", "> b\n", "1. b\n", "# b\n", "```\nb\n```\n", "c|d\n-|-\n1|2\n"]


def jobs(tier, seed):
    jobs = []
    spec = {n: dict(NOTAB) for n in "abcdefgh"}
    cfgs = [JS] if tier == "quick" else [JS, CM]
    k = 2 if tier == "quick" else 3
    for cfg in cfgs:
        for cb in (CONC_B if tier == "thorough" else CONC_B[:4]):
            jobs.append({"harness": "concat", "params": {"cfg": cfg, "a": free_doc(k, "\n"), "b": [cb], "spec": spec, "name": "freeA"},
                         "weight": 8 if tier == "quick" else 30, "cpu_cap": 1500, "wall_cap": 2400})
        for name, sa in A_MENU:
            fb = [{"v": "cdefgh"[i]} for i in range(k)] + ["\n"]
            if tier == "quick" and name not in ("para", "tight-list", "quote-lazy", "setext", "table", "nested", "nested-list"):
                continue
            jobs.append({"harness": "concat", "params": {"cfg": cfg, "a": [p if isinstance(p, str) else "x" for p in sa], "b": fb,
                                                          "spec": spec, "name": f"freeB-{name}"},
                         "weight": 8 if tier == "quick" else 30, "cpu_cap": 1500, "wall_cap": 2400})
        for an, sa in A_MENU:
            for bn, sb in B_MENU:
                if tier == "quick" and an == "refdef":
                    continue  # a free character inside a reference definition costs > 20 CPU-s per path: thorough tier
                if tier == "quick":
                    # one free character (in A), B concrete
                    if an == "para" and bn == "table":
                        # free character in B (a table row position), A concrete
                        jobs.append({"harness": "concat", "params": {"cfg": cfg, "a": ["ax\n"], "b": sb, "spec": spec, "name": "para+table(freeB)"},
                                     "weight": 3, "cpu_cap": 900, "wall_cap": 1500})
                    if bn not in ("para", "list"):
                        continue
                    sb2 = [p if isinstance(p, str) else "y" for p in sb]
                    jobs.append({"harness": "concat", "params": {"cfg": cfg, "a": sa, "b": sb2, "spec": spec, "name": f"{an}+{bn}"},
                                 "weight": 2, "cpu_cap": 900, "wall_cap": 1500})
                else:
                    jobs.append({"harness": "concat", "params": {"cfg": cfg, "a": sa, "b": sb, "spec": spec, "name": f"{an}+{bn}"},
                                 "weight": 10, "cpu_cap": 1500, "wall_cap": 2400})
    return jobs


def thorough_extra(seed):
    jobs = []
    spec = {n: dict(NOTAB) for n in "abcdefgh"}
    for cb in CONC_B[4:]:
        jobs.append({"harness": "concat", "params": {"cfg": JS, "a": free_doc(2, "\n"), "b": [cb], "spec": spec, "name": "freeA"}, "weight": 8})
    for cb in ("b\n", "- b\n"):
        for name, extra in shard_extras("a", exclude="\t\r\0"):
            sp = {k: dict(v) for k, v in spec.items()}
            sp["a"] = dict(sp["a"], extra=extra)
            jobs.append({"harness": "concat", "params": {"cfg": JS, "a": free_doc(3, "\n"), "b": [cb], "spec": sp, "name": "freeA3", "shard": name}, "weight": 20})
    for an, sa in A_MENU:
        if an not in ("para", "tight-list", "quote-lazy", "setext", "table", "nested", "nested-list"):
            jobs.append({"harness": "concat", "params": {"cfg": JS, "a": [p if isinstance(p, str) else "x" for p in sa],
                                                          "b": [{"v": "c"}, {"v": "d"}, "\n"], "spec": spec, "name": f"freeB-{an}"}, "weight": 8})
        for bn, sb in B_MENU:
            # one free character on each side
            jobs.append({"harness": "concat", "params": {"cfg": JS, "a": sa, "b": sb, "spec": spec, "name": f"{an}+{bn}"}, "weight": 10})
    for an, sa in A_MENU:
        jobs.append({"harness": "concat", "params": {"cfg": CM, "a": sa, "b": ["y\n"], "spec": spec, "name": f"{an}+para-cm"}, "weight": 2, "path_cap": 120})
    for bn in ("para", "list"):
        sb2 = [p if isinstance(p, str) else "y" for p in dict(B_MENU)[bn]]
        jobs.append({"harness": "concat", "params": {"cfg": JS, "a": dict(A_MENU)["refdef"], "b": sb2, "spec": spec, "name": f"refdef+{bn}"}, "weight": 6,
                     "path_cap": 120})
    for j in jobs:
        j["cpu_cap"] = 3000
        j["wall_cap"] = 4000
    return jobs
