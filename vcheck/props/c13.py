"""C13 — concurrent or nested parses on a shared instance do not interfere (partial claim, see DESIGN.md)."""
from __future__ import annotations

import copy
import inspect

from .. import scaffolds as S
from ..engine_ch import Free, Harness
from ..mdutil import build_md, exc_record, free_doc, get_md, scaffold_frees
from ..sym import no_tracing, realize
from . import c14

EXPLANATION = (
    "Three parts. (1) E3: Ruler.getRules and every Ruler method it reaches are re-generated from the current source as generators with a "
    "scheduling point before each statement; two (thorough: three) callers are interleaved on one real Ruler under a symbolic schedule with a "
    "bounded number of pre-emptions; every caller must get the list it gets alone.  A counterexample is confirmed with real threads on the "
    "unmodified class (sys.settrace hand-off) before it is reported.  (2) re-entrancy: a wrapper around a symbolic choice of rule / render rule "
    "starts md.render(B) at its i-th invocation while md.render(A) runs; both results must equal their solo results, on fresh and warm "
    "instances.  (3) frame condition: parse/render leave options, rule tables, render rules and module-level mutable objects unchanged."
)
BOUNDS = {
    "quick": "(1) rulers of 3 rules (symbolic enabled flags, 3 alt layouts), 2 callers on 3 chain pairs, 1 pre-emption at any statement, first use and just-invalidated cache; "
             "(2) fixed documents, 46 callbacks (43 rules/render rules/highlight + the validateLink/normalizeLink/normalizeLinkText hooks) x invocation index; (3) FREE(2)+newline (js-default) and 4 scaffolds",
    "thorough": "(1) 2 pre-emptions, and 3 callers with 2 pre-emptions; (2) fresh and warm instances, one free character in A; (3) both presets",
}
OUTSIDE = ("pre-emption inside one statement (bytecode granularity); more pre-emptions/threads than the bound; transient writes to shared state undone within "
           "one rule call; concurrent reconfiguration (excluded by the property); interleavings of whole parses beyond the shared lazily-built rule cache")
ASSUMPTIONS = ["statement-granular interleaving of the code that touches shared state (Ruler cache); everything else a parse touches is per-call state "
               "(StateCore/StateBlock/StateInline, env) - checked by part 3's frame condition"]

ALT_LAYOUTS = [[["x"], [], ["x", "y"]], [[], ["y"], []], [["x"], ["x"], ["x"]]]
CHAINS = ["", "x", "y"]
_E3: dict = {}


def _e3():
    if not _E3:
        from markdown_it.ruler import Ruler

        from ..engine_sched import attach, generatorize

        gens, rep = generatorize(Ruler, "getRules")
        attach(Ruler, gens)
        _E3["report"] = rep
    return _E3["report"]


def _sched_free(params):
    fr = [Free(f"e{i}", kind="bool") for i in range(3)]
    for c in range(params["callers"]):
        fixed = params.get("chains")
        fr.append(Free(f"ch{c}", kind="int", lo=fixed[c] if fixed else 0, hi=fixed[c] if fixed else 2))
    for p in range(params["preempt"]):
        fr.append(Free(f"p{p}", kind="int", lo=0, hi=params.get("pmax", 45)))
    fr.append(Free("first", kind="int", lo=0, hi=params["callers"] - 1))
    return fr


def _solo(rules, chain):
    return [fn for (nm, en, fn, alt) in rules if en and (chain == "" or chain in alt)]


def _sched_prepare(params):
    _e3()


def _sched_run(params, values):
    from markdown_it.ruler import Ruler

    rep = _e3()
    layout = ALT_LAYOUTS[params["layout"]]
    r = Ruler()
    rules = []
    for i in range(3):
        r.push(f"r{i}", f"fn{i}", {"alt": list(layout[i])})
        en = True if values[f"e{i}"] else False
        r.__rules__[i].enabled = en
        rules.append((f"r{i}", en, f"fn{i}", layout[i]))
    if params.get("invalidated"):
        r.getRules("")
        r.disable("r0")
        r.enable("r0") if rules[0][1] else None
        r.__rules__[0].enabled = rules[0][1]
    n = params["callers"]
    chains = [CHAINS[realize(values[f"ch{c}"])] for c in range(n)]
    gens = [r.getRules_gen(chains[c]) for c in range(n)]
    done = [False] * n
    result = [None] * n
    cur = realize(values["first"])
    budget = [values[f"p{p}"] for p in range(params["preempt"])]
    bi = 0
    steps_in_slice = 0
    total = 0
    trace = []
    while not all(done):
        if done[cur]:
            cur = (cur + 1) % n
            steps_in_slice = 0
            continue
        # pre-empt the running caller after budget[bi] statements of this slice
        if bi < len(budget) and steps_in_slice == budget[bi] and any(not done[k] for k in range(n) if k != cur):
            bi += 1
            cur = next(k for k in ((cur + d) % n for d in range(1, n + 1)) if not done[k])
            steps_in_slice = 0
            trace.append(("switch", cur, total))
            continue
        try:
            next(gens[cur])
        except StopIteration as e:
            done[cur] = True
            result[cur] = list(e.value)
        steps_in_slice += 1
        total += 1
        if total > 2000:
            return [{"key": "scheduler-runaway"}], None
    recs = []
    for c in range(n):
        if result[c] != _solo(rules, chains[c]):
            recs.append({"key": "half-built-rule-chain-observed", "caller": c, "chain": chains[c],
                         "detail": f"got {result[c]} expected {_solo(rules, chains[c])}"})
    return recs, [chains, result, trace]


# ---- real-thread confirmation of a schedule counterexample (unmodified class) -----------------------------------


def thread_replay(layout_idx, enabled, chains, max_points=80):
    """Sweep pause points with real threads: caller A is paused after its n-th line event inside ruler.py, caller B then
    runs getRules to completion, A resumes.  Returns a description of the first interference found, else None."""
    import sys
    import threading

    from markdown_it import ruler as ruler_mod
    from markdown_it.ruler import Ruler

    layout = ALT_LAYOUTS[layout_idx]
    fname = ruler_mod.__file__

    def make():
        r = Ruler()
        rules = []
        for i in range(3):
            r.push(f"r{i}", f"fn{i}", {"alt": list(layout[i])})
            r.__rules__[i].enabled = enabled[i]
            rules.append((f"r{i}", enabled[i], f"fn{i}", layout[i]))
        return r, rules

    for a_idx, b_idx in ((0, 1), (1, 0)):
        for n in range(1, max_points):
            r, rules = make()
            res = {}
            count = {"n": 0}
            go_b = threading.Event()
            b_done = threading.Event()
            reached = {"v": False}

            def tracer(frame, event, arg):
                if frame.f_code.co_filename != fname:
                    return None

                def local(frame, event, arg):
                    if event == "line" and threading.current_thread().name == "A":
                        count["n"] += 1
                        if count["n"] == n:
                            reached["v"] = True
                            go_b.set()
                            b_done.wait(5)
                    return local

                return local

            def run_a():
                sys.settrace(tracer)
                try:
                    res["a"] = list(r.getRules(chains[a_idx]))
                finally:
                    sys.settrace(None)
                    go_b.set()

            def run_b():
                go_b.wait(5)
                try:
                    res["b"] = list(r.getRules(chains[b_idx]))
                finally:
                    b_done.set()

            ta = threading.Thread(target=run_a, name="A")
            tb = threading.Thread(target=run_b, name="B")
            ta.start(); tb.start(); ta.join(10); tb.join(10)
            if res.get("a") != _solo(rules, chains[a_idx]) or res.get("b") != _solo(rules, chains[b_idx]):
                return {"paused_caller": a_idx, "after_line_events": n, "got": res,
                        "expected": [_solo(rules, chains[a_idx]), _solo(rules, chains[b_idx])]}
            if not reached["v"]:
                break
    return None


def confirm_native(body: dict) -> bool:
    """Called by the runner for a natively replayed counterexample: schedule counterexamples must also reproduce with real threads."""
    if body["harness"] != "schedule":
        return True
    v = body["values"]
    p = body["params"]
    chains = [CHAINS[v[f"ch{c}"]] for c in range(p["callers"])]
    hit = thread_replay(p["layout"], [bool(v[f"e{i}"]) for i in range(3)], chains[:2] if len(chains) >= 2 else chains * 2)
    if hit:
        print(f"  real-thread replay on the unmodified Ruler reproduces: {hit}")
    return hit is not None


# ---- part 2: re-entrancy ---------------------------------------------------------------------------------------

DOC_A = c14.DOC
DOC_B = "> *b* [r]\n\n[r]: /bb\n\n- `c`\n"


class Reenter(c14.Injector):
    def __init__(self, target, at, md, doc_b):
        super().__init__(target, at, "ValueError")
        self.md = md
        self.doc_b = doc_b
        self.inner = None
        self.active = False

    def hit(self, idx):
        if idx != self.target or self.active:
            return
        n = self.count
        self.count = n + 1
        if n == self.at:
            self.active = True
            try:
                self.inner = self.md.render(self.doc_b)
            finally:
                self.active = False
            self.raised = True


MD_METHODS = ["validateLink", "normalizeLink", "normalizeLinkText"]


def install_md_methods(md, inj, base_idx):
    """Wrap the link hooks of the instance (documented extension points: plugins assign md.validateLink etc.)."""
    for k, nm in enumerate(MD_METHODS):
        orig = getattr(md, nm)

        def wrapper(*a, _orig=orig, _idx=base_idx + k, **kw):
            inj.hit(_idx)
            return _orig(*a, **kw)

        setattr(md, nm, wrapper)
    return [("md-method", "instance", nm) for nm in MD_METHODS]


def _re_free(params):
    fr = [Free("which", kind="int", lo=params.get("lo", 0), hi=params.get("hi", 45)), Free("i", kind="int", lo=0, hi=params.get("imax", 60))]
    if params.get("free_a"):
        fr.append(Free("a", exclude="\r\0"))
    return fr


def _re_run(params, values):
    with no_tracing():
        md = build_md(params["cfg"])
        solo = build_md(params["cfg"])
        if params.get("warm"):
            md.render("x")
    which = realize(values["which"])
    inj = Reenter(which, values["i"], md, DOC_B)
    none = c14.Injector(-1, -1, "ValueError")
    with no_tracing():
        cbs = c14.install(md, inj)
        cbs = cbs + install_md_methods(md, inj, len(cbs))
        c14.install(solo, none)
        install_md_methods(solo, none, len(cbs) - len(MD_METHODS))
    if which >= len(cbs):
        return [], "assume: callback index out of range"
    doc_a = DOC_A if not params.get("free_a") else DOC_A[:2] + values["a"] + DOC_A[3:]
    recs = []
    import contextlib

    native = no_tracing if not params.get("free_a") else contextlib.nullcontext
    try:
        out_a = md.render(doc_a)
        with native():
            solo_a = solo.render(doc_a)
        with no_tracing():
            solo_b = solo.render(DOC_B)
    except Exception as e:
        return [exc_record(e, "reenter")], "raised"
    cb = "/".join(cbs[which][1:])
    if out_a != solo_a:
        recs.append({"key": "outer-render-disturbed-by-nested", "callback": cb})
    if inj.raised and inj.inner != solo_b:
        recs.append({"key": "nested-render-differs-from-solo", "callback": cb})
    return recs, [cb, inj.raised, out_a, inj.inner]


# ---- part 3: frame condition ------------------------------------------------------------------------------------


def _module_state():
    import sys

    out = {}
    for name, mod in sorted(sys.modules.items()):
        if not (name == "markdown_it" or name.startswith("markdown_it.")) or mod is None:
            continue
        for k, v in sorted(vars(mod).items()):
            if k.startswith("__"):
                continue
            if isinstance(v, (dict, list, set)):
                try:
                    out[f"{name}.{k}"] = copy.deepcopy(v)
                except Exception:
                    out[f"{name}.{k}"] = repr(type(v))
            elif (not isinstance(v, (type, str, int, float, bool, tuple, frozenset)) and not callable(v) and not inspect.ismodule(v)
                  and type(v).__module__.startswith("markdown_it") and hasattr(v, "__dict__")):
                # module-level instances of the library's own classes (scratch/result objects)
                try:
                    out[f"{name}.{k}"] = copy.deepcopy(vars(v))
                except Exception:
                    out[f"{name}.{k}"] = repr(type(v))
    return out


def _instance_state(md):
    st = {"options": dict(md.options)}
    for chain, ruler in (("core", md.core.ruler), ("block", md.block.ruler), ("inline", md.inline.ruler), ("inline2", md.inline.ruler2)):
        st[chain] = [(r.name, r.enabled, id(r.fn), tuple(r.alt)) for r in ruler.__rules__]
    st["render_rules"] = sorted((k, getattr(v, "__func__", v).__qualname__) for k, v in md.renderer.rules.items())
    st["attrs"] = sorted(k for k in vars(md))
    return st


def _frame_free(params):
    return scaffold_frees(params["scaffold"], params.get("spec", {}))


def _frame_prepare(params):
    get_md(params["cfg"])


def _frame_run(params, values):
    from ..mdutil import build_doc

    md = get_md(params["cfg"])
    src = build_doc(params["scaffold"], values)
    with no_tracing():
        before_i = _instance_state(md)
        before_m = _module_state()
    try:
        from ..mdutil import pipeline_nn

        toks, env = pipeline_nn(md, src)  # normalize skipped (CR/NUL-free source; its re.sub dominates otherwise)
        out = md.renderer.render(toks, md.options, env)
        pipeline_nn(md, src, inline_mode=True)
    except Exception as e:
        return [exc_record(e, "parse")], "raised"
    with no_tracing():
        after_i = _instance_state(md)
        after_m = _module_state()
    recs = []
    for k in before_i:
        if before_i[k] != after_i.get(k):
            recs.append({"key": "instance-state-changed-by-parse", "what": k})
    for k in before_m:
        if before_m[k] != after_m.get(k):
            recs.append({"key": "module-state-changed-by-parse", "what": k})
    for k in after_m:
        if k not in before_m:
            recs.append({"key": "module-state-changed-by-parse", "what": k})
    return recs, out


HARNESSES = {
    "schedule": Harness("schedule", _sched_free, _sched_run, prepare=_sched_prepare,
                        functions=("Ruler.getRules (AST->generator)", "Ruler.__compile__ (AST->generator)")),
    "reenter": Harness("reenter", _re_free, _re_run, functions=("MarkdownIt.render (nested)", "ParserCore/Block/Inline", "RendererHTML", "Ruler.getRules")),
    "frame": Harness("frame", _frame_free, _frame_run, prepare=_frame_prepare, functions=("MarkdownIt.parse", "RendererHTML.render", "MarkdownIt.parseInline")),
}


def jobs(tier, seed):
    jobs = []
    pairs = [[0, 1], [1, 2], [0, 0]]
    for layout in range(len(ALT_LAYOUTS)):
        for inval in (False, True):
            for ch in pairs:
                # one pre-emption (caller A paused at any statement, B runs to completion, A resumes)
                jobs.append({"harness": "schedule", "params": {"layout": layout, "callers": 2, "preempt": 1, "invalidated": inval, "pmax": 45, "chains": ch},
                             "weight": 4, "cpu_cap": 2400, "wall_cap": 3600})
                if tier == "thorough":
                    jobs.append({"harness": "schedule", "params": {"layout": layout, "callers": 2, "preempt": 2, "invalidated": inval, "pmax": 45, "chains": ch},
                                 "weight": 40, "cpu_cap": 9000, "wall_cap": 10000})
            if tier == "thorough":
                jobs.append({"harness": "schedule", "params": {"layout": layout, "callers": 3, "preempt": 2, "invalidated": inval, "pmax": 45, "chains": [0, 1, 2]},
                             "weight": 60, "cpu_cap": 12000, "wall_cap": 13000})
    cfg = dict(S.JS)
    ranges = [(0, 6), (7, 11), (12, 17), (18, 18), (19, 21), (22, 25), (26, 29), (30, 33), (34, 38), (39, 42), (43, 45)]
    for lo, hi in ranges:
        for warm in ((False,) if tier == "quick" else (False, True)):
            jobs.append({"harness": "reenter", "params": {"cfg": cfg, "lo": lo, "hi": hi, "warm": warm, "free_a": tier == "thorough" and lo in (7, 18)},
                         "weight": 8, "cpu_cap": 2400, "wall_cap": 3600})
    NOCR = {"exclude": "\r\0"}
    spec = {n: dict(NOCR) for n in "abcdefgh"}
    from ..mdutil import shard_extras

    for cfgf in ((S.JS,) if tier == "quick" else (S.JS, S.CM)):
        for name, extra in shard_extras("a", exclude="\r\0"):
            sp = {k_: dict(v) for k_, v in spec.items()}
            sp["a"] = dict(sp["a"], extra=extra)
            jobs.append({"harness": "frame", "params": {"cfg": cfgf, "scaffold": free_doc(2, "\n"), "spec": sp, "name": "free", "shard": name},
                         "weight": 12, "cpu_cap": 2400, "wall_cap": 3600})
    ctxs = [["> - ", {"v": "a"}, "\n\n```\nc\n```\n"], ["a|b\n-|-\n", {"v": "a"}, "|2\n"],
            ["*x* ", {"v": "a"}, " `c`\n"]]
    if tier == "thorough":
        ctxs.append(["*", {"v": "a"}, "* &amp; <b> \\x\n"])  # ~20 CPU-s per path
        ctxs.append(["[a]: /u\n\nx [a] ![i](x) ", {"v": "a"}, "\n"])  # ~35 CPU-s per path
    for sc in ctxs:
        jobs.append({"harness": "frame", "params": {"cfg": S.JS, "scaffold": sc, "spec": spec, "name": "ctx"},
                     "weight": 4, "cpu_cap": 1200, "wall_cap": 1800})
    return jobs


def thorough_extra(seed):
    jobs = []
    for layout in range(len(ALT_LAYOUTS)):
        for ch in ([0, 1], [1, 2]):
            # two pre-emptions (A paused, B paused, A resumes, B resumes), statement budget 0..30 each
            jobs.append({"harness": "schedule", "params": {"layout": layout, "callers": 2, "preempt": 2, "invalidated": False, "pmax": 30, "chains": ch},
                         "weight": 40, "cpu_cap": 9000, "wall_cap": 10000})
        jobs.append({"harness": "schedule", "params": {"layout": layout, "callers": 3, "preempt": 1, "invalidated": False, "pmax": 45, "chains": [0, 1, 2]},
                     "weight": 20, "cpu_cap": 6000, "wall_cap": 7200})
    cfg = dict(S.JS)
    ranges = [(0, 6), (7, 11), (12, 17), (18, 18), (19, 21), (22, 25), (26, 29), (30, 33), (34, 38), (39, 42), (43, 45)]
    for lo, hi in ranges:
        jobs.append({"harness": "reenter", "params": {"cfg": cfg, "lo": lo, "hi": hi, "warm": True}, "weight": 8, "cpu_cap": 3000, "wall_cap": 4000})
    for lo, hi in ((7, 11), (18, 18), (25, 25)):
        jobs.append({"harness": "reenter", "params": {"cfg": cfg, "lo": lo, "hi": hi, "warm": False, "free_a": True}, "weight": 40, "cpu_cap": 9000,
                     "wall_cap": 10000, "path_cap": 120})
    spec = {n: {"exclude": "\r\0"} for n in "abcdefgh"}
    from ..mdutil import shard_extras

    for name, extra in shard_extras("a", exclude="\r\0"):
        sp = {k_: dict(v) for k_, v in spec.items()}
        sp["a"] = dict(sp["a"], extra=extra)
        jobs.append({"harness": "frame", "params": {"cfg": S.CM, "scaffold": free_doc(2, "\n"), "spec": sp, "name": "free-cm", "shard": name},
                     "weight": 12, "cpu_cap": 3000, "wall_cap": 4000})
    return jobs
