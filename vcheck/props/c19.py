"""C19 — typographic replacements are local to text and never touch structure or literals."""
from __future__ import annotations

from .. import scaffolds as S
from ..engine_ch import Free, Harness
from ..mdutil import build_doc, exc_record, free_doc, get_md, scaffold_frees, shard_extras, stream_view
from ..sym import no_tracing, realize

EXPLANATION = (
    "The core chain (normalize skipped) is executed symbolically with the typographer off and on (replacements / smartquotes / both) on the same "
    "symbolic text, with symbolic quote strings; the streams are compared before text_join (so that text_special tokens are still visible) and "
    "after: same token shape, every non-text token identical, text_special tokens identical; for smartquotes-only an alignment walk shows the "
    "on-text to be the off-text with straight quotes replaced in place by one of the configured quote strings or an apostrophe."
)
BOUNDS = {
    "quick": 'one free character from 8 characters of the typographic alphabet (" \' a space . - ( \\) in a quoted-text scaffold under smartquotes / replacements / both, and in 9 context scaffolds (code span, autolink, escapes+entities, paragraphs, lists+quote, code blocks); default quotes; list-of-strings quotes with lengths 0-2 (3 layouts)',
    "thorough": 'all quick jobs (core) plus the deeper families of thorough_extra() (not core): more free characters, the commonmark preset, the contexts the quick tier had to shed (DESIGN.md 10.5)',
}
OUTSIDE = "quote strings longer than 2; text longer than 4 free characters"
ASSUMPTIONS = ["CR/NUL-free sources", "comparison before text_join reads the token list after running the core chain up to (excluding) text_join"]

JS = S.JS
TYPO = "\"'a1 .-+()c\\*`&"
TYPO_QUICK = "\"'a .-(\\"  # quick tier: 8 of the 15 (a path costs 30-60 CPU-s)


def run_core(md, src, upto_text_join=False):
    from markdown_it.rules_core import normalize, text_join
    from markdown_it.rules_core.state_core import StateCore

    state = StateCore(src, md, {})
    from markdown_it.rules_core import inline as inline_rule

    from ..engine_ch import concretize_tokens

    for rule in md.core.ruler.getRules(""):
        if rule is normalize:
            continue
        if upto_text_join and rule is text_join:
            break
        rule(state)
        if rule is inline_rule:
            # engine optimisation, no change of meaning: token strings whose characters are all concrete become native strs, so that the
            # typographer's regexes run natively on them; tokens holding a symbolic character stay symbolic
            concretize_tokens(state.tokens)
    return state.tokens


def _cfg(mode):
    dis = {"replacements": ["smartquotes"], "smartquotes": ["replacements"], "both": []}[mode]
    return {"preset": "js-default", "options": {"typographer": True}, "disable": dis, "_m": mode}


def _free(params):
    fr = scaffold_frees(params["scaffold"], params.get("spec", {}))
    if params.get("quotes") == "chars":
        fr += [Free(f"q{i}", exclude="") for i in range(4)]
    return fr


def _prepare(params):
    get_md(JS)
    get_md(_cfg(params["mode"]))


def _shape(t):
    return (t.type, t.tag, t.nesting, t.level, t.markup, t.info, dict(t.attrs or {}), t.map, t.hidden, t.block)


def _match(a: str, b: str, q, i=0, j=0, depth=0) -> bool:
    """b is a with some ' / \" replaced by a quote string or an apostrophe."""
    n = len(a)
    while i < n:
        ch = a[i]
        if ch == '"' or ch == "'":
            cands = [ch, "’"] + ([q[0], q[1]] if ch == '"' else [q[2], q[3]])
            for cnd in cands:
                if b[j:j + len(cnd)] == cnd and _match(a, b, q, i + 1, j + len(cnd), depth + 1):
                    return True
            return False
        if j >= len(b) or b[j] != ch:
            return False
        i += 1
        j += 1
    return j == len(b)


def compare(off, on, recs, mode, q, stage):
    if len(off) != len(on):
        recs.append({"key": "typographer-changes-token-count", "stage": stage})
        return
    in_auto = 0
    for a, b in zip(off, on):
        if a.type == "link_open" and a.info == "auto":
            in_auto += 1
        elif a.type == "link_close" and a.info == "auto":
            in_auto -= 1
        elif a.type == "text" and in_auto > 0 and a.content != b.content:
            # narrow class for known-findings: the only change is a straight quote replaced in place (smartquotes has no autolink guard)
            cls = "quote-substitution" if (mode != "replacements" and _match(a.content, b.content, q)) else "other"
            recs.append({"key": "typographer-touches-autolink-text", "stage": stage, "cls": cls})
            return
        if _shape(a) != _shape(b):
            recs.append({"key": "typographer-changes-structure", "stage": stage, "ttype": a.type})
            return
        if a.type == "inline":
            compare(a.children or [], b.children or [], recs, mode, q, stage)
            if recs:
                return
            continue
        if a.type == "image":
            # alt text children are plain copies of the description: must be untouched
            if stream_view([a]) != stream_view([b]):
                recs.append({"key": "typographer-touches-non-text", "stage": stage, "ttype": a.type})
                return
            continue
        if a.type != "text":
            if a.content != b.content or a.meta != b.meta:
                recs.append({"key": "typographer-touches-non-text", "stage": stage, "ttype": a.type})
                return
        elif a.content != b.content:
            if mode == "smartquotes" and not _match(a.content, b.content, q):
                recs.append({"key": "smartquotes-changes-other-text", "stage": stage})
                return


def _run(params, values):
    off = get_md(JS)
    on = get_md(_cfg(params["mode"]))
    src = build_doc(params["scaffold"], values)
    if params.get("quotes") == "chars":
        q = values["q0"] + values["q1"] + values["q2"] + values["q3"]
    elif params.get("quotes") == "list":
        q = list(params["quote_list"])
    else:
        q = "“”‘’"
    saved = on.options["quotes"]
    on.options["quotes"] = q
    recs = []
    try:
        try:
            a1 = run_core(off, src, upto_text_join=True)
            b1 = run_core(on, src, upto_text_join=True)
            compare(a1, b1, recs, params["mode"], q, "before-text_join")
            a2 = run_core(off, src)
            b2 = run_core(on, src)
            if not recs:
                compare(a2, b2, recs, params["mode"], q, "final")
            html = [(t.type, t.content, [(c.type, c.content) for c in (t.children or [])]) for t in b2]
        except Exception as e:
            return [exc_record(e, "core")], "raised"
    finally:
        on.options["quotes"] = saved
    return recs, html


HARNESSES = {
    "typo": Harness("typo", _free, _run, prepare=_prepare,
                    functions=("rules_core.replacements.replace", "rules_core.smartquotes", "rules_core.text_join", "rules_inline.escape", "rules_inline.entity")),
}


def H(v):
    return {"v": v}


SCAFFOLDS = [
    ["\"a\" `\"", H("a"), "\"` 'b'\n"], ["[\"t\"](/u \"", H("a"), "'q'\") (c)\n"], ["<http://a.b/(c)--", H("a"), "> \"x\"\n"],
    ["<b title=\"", H("a"), "\">\"y\"</b> ...\n"], ["\\\"", H("a"), "\\' \"z\" &quot;", H("b"), "&quot;\n"], ["*\"", H("a"), "\"* __'", H("b"), "'__\n"],
    ["\"a", H("a"), "\n'b", H("b"), "\n"], ["![\"", H("a"), "\"](/u \"t\") +- (tm)\n"], ["a--", H("a"), "-b ...", H("b"), ".. ??? !!!!\n"],
    ["    \"code\" (c) ", H("a"), "\n\n```\n'f' -- ", H("b"), "\n```\n"], ["- \"i", H("a"), "\"\n- 'j'\n\n> \"k", H("b"), "\"\n"], ["\"", H("a"), "'", H("b"), "\"'\n"],
]


def jobs(tier, seed):
    """quick: one free character from the typographic alphabet per job (a path costs 10-20 CPU-s: four runs of the core chain, and the
    smartquotes rule classifies both neighbours of every quote with Unicode punctuation/whitespace classes)."""
    jobs = []
    tspec = {n: {"alphabet": TYPO_QUICK} for n in "abcdefgh"}
    for mode in ("smartquotes", "replacements", "both"):
        jobs.append({"harness": "typo", "params": {"mode": mode, "scaffold": ["\"", H("a"), "\" 'd' xy\n"], "spec": tspec, "quotes": None, "name": f"{mode}-free"},
                     "weight": 8, "cpu_cap": 2400, "wall_cap": 3600, "path_cap": 300})
        for si, sc in enumerate(SCAFFOLDS):
            if mode == "both" and si != 4:
                continue
            if si % 2 == 1 or (mode == "replacements" and si in (0, 4)) or si == 8:
                continue  # scaffold 8 (dash/ellipsis runs): CrossHair's regex model disagrees with the interpreter on the look-ahead patterns
            sc2 = [("x" if p == H("b") else p) for p in sc]
            if si == 4:
                sc2 = ["\\\"", H("a"), " \"z\" &quot;\n"]  # shorter form of the escape/entity scaffold (the long one exceeds 120 CPU-s per path)
            symq = False  # symbolic quote characters: thorough tier
            sp_ = tspec if si != 4 else {n: {"alphabet": "\"'a "} for n in "abcdefgh"}  # 4 characters here: ~70 CPU-s per path
            jobs.append({"harness": "typo", "params": {"mode": mode, "scaffold": sc2, "spec": sp_, "quotes": "chars" if symq else None, "name": "ctx"},
                         "weight": 9 if si == 4 else 5, "cpu_cap": 3000, "wall_cap": 4000, "path_cap": 300})
    for ql in (["<<", ">>", "", ""], ["", "", "'", "''"], ["„", "“", "‚", "‘"]):
        jobs.append({"harness": "typo", "params": {"mode": "smartquotes", "scaffold": ["\"", H("a"), "\" 'b' \"c\"\n"], "spec": tspec, "quotes": "list",
                                                    "quote_list": ql, "name": "list-form"}, "weight": 6, "cpu_cap": 2400, "wall_cap": 3600, "path_cap": 120})
    return jobs

def thorough_extra(seed):
    jobs = []
    tspec = {n: {"alphabet": TYPO} for n in "abcdefgh"}
    anyspec = {n: {"exclude": "\r\0"} for n in "abcdefgh"}
    for mode in ("smartquotes", "replacements", "both"):
        for first in TYPO:
            sp = {kk: dict(v) for kk, v in tspec.items()}
            sp["a"] = {"alphabet": first}
            if mode == "both" and first not in "\"'-.(":
                continue
            jobs.append({"harness": "typo", "params": {"mode": mode, "scaffold": free_doc(3, "\n"), "spec": sp, "quotes": None, "name": f"{mode}3-{first!r}"},
                         "weight": 20, "path_cap": 90})
        for si, sc in enumerate(SCAFFOLDS):
            if mode != "replacements":
                jobs.append({"harness": "typo", "params": {"mode": mode, "scaffold": [("x" if p == H("b") else p) for p in sc], "spec": anyspec, "quotes": "chars",
                                                            "name": "ctx-symquotes"}, "weight": 12, "path_cap": 90})
    for j in jobs:
        j["cpu_cap"] = 6000
        j["wall_cap"] = 7200
    return jobs
