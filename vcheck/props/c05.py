"""C05 — emitted link and image URLs are normalised and never carry a dangerous scheme."""
from __future__ import annotations

import hashlib
import json
import os
import string
import time

from .. import scaffolds as S
from ..engine_ch import Free, Harness
from ..mdutil import URL_NONASCII, build_doc, exc_record, get_md, render_nn, pipeline_nn, shard_extras, urlish

EXPLANATION = (
    "E2: the AST of normalize_url.validateLink and the live BAD_PROTO_RE/GOOD_DATA_RE objects are translated to z3 string/regex "
    "constraints; 'exists u over URL-safe ASCII (any length): accepted(u) and a browser reads a forbidden scheme' must be unsat "
    "(z3 5.1, cross-checked with z3 4.8.12 and cvc5).  E1: normalizeLink output alphabet lemma, and the four producers (inline link, "
    "image, reference definition, autolink) on destinations prefix + scheme word with symbolic letter case + ':' + suffix."
)
BOUNDS = {
    "quick": "kernel (E2): URLs of any length over the URL-safe alphabet; alphabet lemma: normalizeLink on 1 free character (ASCII + 7 non-ASCII representatives); "
             "producers: 5 frames (inline link, image, reference definition, autolink, angle-bracket destination) x scheme words file/data (all 4 letters symbolic case) and "
             "javascript/vbscript (3 letters symbolic case) x a solver-chosen index into 25 concrete prefixes (controls, blanks, entity and backslash spellings) "
             "and into 5 colon spellings",
    "thorough": "plus (not core): alphabet lemma on 2 free characters; the same producers under commonmark (html on); one fully symbolic prefix character before file/javascript",
}
OUTSIDE = ("destinations with more free characters around the scheme word; IDN/punycode beyond concrete hosts; linkifier (library absent); "
           "custom validateLink overrides")
ASSUMPTIONS = ["kernel domain = strings over the URL-safe ASCII alphabet (licensed by the alphabet lemma)",
               "validator argument of validateLink is None (MarkdownIt.validateLink never passes one)",
               "browser reading: case-insensitive scheme, leading/trailing characters <= U+0020 ignored"]

URLSAFE = string.ascii_letters + string.digits + ";/?:@&=+$,-_.!~*'()#%"
BAD = ("javascript", "vbscript", "file", "data")
GOOD_DATA = ("data:image/gif;", "data:image/png;", "data:image/jpeg;", "data:image/webp;")
JS = S.JS
CM = S.CM
HERE = os.path.dirname(os.path.dirname(os.path.dirname(os.path.abspath(__file__))))


def browser_bad(v: str) -> bool:
    i, j = 0, len(v)
    while i < j and ord(v[i]) <= 32:
        i += 1
    while j > i and ord(v[j - 1]) <= 32:
        j -= 1
    low = v[i:j].lower()
    for w in BAD:
        if low.startswith(w + ":"):
            if w == "data":
                for g in GOOD_DATA:
                    if low.startswith(g):
                        return False
            return True
    return False


def url_records(v: str, where: str, recs):
    for ch in v:
        if ch not in URLSAFE:
            recs.append({"key": "url-not-urlsafe", "where": where})
            break
    if browser_bad(v):
        recs.append({"key": "url-dangerous-scheme", "where": where})


# ------------------------------------------------------------------ E1 harnesses


def _alpha_free(params):
    # fixed length (symbolic lengths are far more expensive than one job per length)
    fr = [Free("abcdefgh"[i], exclude="", extra=urlish("abcdefgh"[i])) for i in range(params["k"])]
    if params.get("shard_extra"):
        fr[0].extra = "(" + fr[0].extra + ") and (" + params["shard_extra"] + ")"
    return fr


def _alpha_run(params, values):
    from markdown_it.common.normalize_url import normalizeLink

    recs = []
    u = "".join(values["abcdefgh"[i]] for i in range(params["k"]))
    try:
        out = normalizeLink(u)
    except Exception as e:
        return [exc_record(e, "normalizeLink")], "raised"
    for ch in out:
        if ch not in URLSAFE:
            recs.append({"key": "normalizeLink-not-urlsafe"})
            break
    return recs, out


def _word(params, values):
    w = ""
    for i, ch in enumerate(params["word"]):
        nm = f"c{i}"
        if nm in values:
            w = w + (ch.upper() if values[nm] else ch)
        else:
            w = w + ch
    return w


def _prod_free(params):
    frees = []
    for i in params.get("case_idx", []):
        frees.append(Free(f"c{i}", kind="bool"))
    if params.get("prefix_free"):
        alpha = params.get("prefix_alphabet")
        if alpha:
            frees.append(Free("p", kind="char", alphabet=alpha))
        else:
            frees.append(Free("p", kind="char", exclude="\r\0", extra=urlish("p")))
    if params.get("suffix_free"):
        frees.append(Free("s", kind="char", exclude="\r\0", extra=urlish("s")))
    if params.get("prefix_menu"):
        frees.append(Free("pi", kind="int", lo=0, hi=len(params["prefix_menu"]) - 1))
    if params.get("colon_menu"):
        frees.append(Free("ci", kind="int", lo=0, hi=len(params["colon_menu"]) - 1))
    return frees


def _prepare(params):
    get_md(params["cfg"])


def _walk(tokens, out):
    for t in tokens:
        if t.type == "link_open":
            out.append(("href", t.attrs.get("href")))
        elif t.type == "image":
            out.append(("src", t.attrs.get("src")))
        if t.children:
            _walk(t.children, out)


def _plain(tokens):
    s = ""
    for t in tokens:
        if t.children:
            s = s + _plain(t.children)
        elif t.type in ("text", "code_inline", "html_inline", "html_block"):
            s = s + t.content
    return s


def _prod_run(params, values):
    from markdown_it.common.utils import escapeHtml

    md = get_md(params["cfg"])
    from ..sym import realize

    w = _word(params, values)
    pre = params.get("prefix", "")
    if "pi" in values:
        pre = params["prefix_menu"][realize(values["pi"])]
    col = params.get("colon", ":")
    if "ci" in values:
        col = params["colon_menu"][realize(values["ci"])]
    dest = pre + values.get("p", "") + w + col + values.get("s", params.get("suffix", "x"))
    src = params["frame"][0] + dest + params["frame"][1]
    try:
        toks, env = pipeline_nn(md, src)
        html = md.renderer.render(toks, md.options, env)
    except Exception as e:
        return [exc_record(e, "pipeline")], "raised"
    recs = []
    urls = []
    _walk(toks, urls)
    for kind, v in urls:
        if not isinstance(v, str):
            recs.append({"key": "url-attr-missing", "where": kind})
            continue
        if v == "":
            # the written destination is never empty here: an empty attribute means the destination was dropped, not kept as text
            recs.append({"key": "rejected-construct-dropped", "where": kind, "detail": "link/image emitted with an empty URL"})
        url_records(v, kind, recs)
        if (kind + '="' + escapeHtml(v) + '"') not in html:
            recs.append({"key": "url-token-html-mismatch", "where": kind})
    if md.options["html"] is False:
        n = html.count('href="') + html.count('src="')
        if n != len(urls):
            recs.append({"key": "url-html-extra-attr", "detail": f"{n} attributes for {len(urls)} tokens"})
    if not urls:
        # rejected destination: the construct must remain as literal text
        if w not in _plain(toks):
            recs.append({"key": "rejected-construct-dropped"})
    return recs, html


HARNESSES = {
    "alphabet": Harness("alphabet", _alpha_free, _alpha_run,
                        functions=("normalize_url.normalizeLink", "mdurl.parse", "mdurl.format", "mdurl.encode")),
    "producer": Harness("producer", _prod_free, _prod_run, prepare=_prepare,
                        functions=("rules_inline.link", "rules_inline.image", "rules_inline.autolink", "rules_block.reference",
                                   "helpers.parseLinkDestination", "common.utils.unescapeAll", "normalizeLink", "validateLink",
                                   "RendererHTML")),
    "kernel_replay": Harness("kernel_replay", lambda p: [Free("u", kind="seg", maxlen=40)], lambda p, v: _kernel_native(v["u"])),
}


def _kernel_native(u):
    from markdown_it import MarkdownIt

    md = MarkdownIt("commonmark")
    recs = []
    if md.validateLink(u) and browser_bad(u):
        recs.append({"key": "validateLink-accepts-dangerous", "detail": u[:80]})
    return recs, u


FRAMES = {
    "link": ("[t](", ")"),
    "image": ("![t](", ")"),
    "refdef": ("[r]: ", "\n\n[r]\n"),
    "autolink": ("<", ">"),
    "link-angle": ("[t](<", ">)"),
}
PREFIX_MENU = "\t\n \x01\x0b\x0c\x1f\\&%#:/jJ\xa0 "
SPELLED_PREFIX = ["&#9;", "&#x0A;", "&Tab;", "&NewLine;", "\\", "&#1;", "&nbsp;"]
COLONS = ["&colon;", "&#58;", "&#x3a;", "\\:"]
CASE_IDX = {"file": [0, 1, 2, 3], "data": [0, 1, 2, 3], "javascript": [0, 4, 9], "vbscript": [0, 2, 7]}


def jobs(tier, seed):
    jobs = []
    for k in ((1,) if tier == "quick" else (1, 2)):
        if k == 1:
            jobs.append({"harness": "alphabet", "params": {"k": 1}, "weight": 3, "cpu_cap": 1200, "wall_cap": 1800})
        else:
            for name, extra in shard_extras("a"):
                jobs.append({"harness": "alphabet", "params": {"k": k, "shard": name, "shard_extra": extra}, "weight": 9 * k,
                             "cpu_cap": 3000, "wall_cap": 4000})
    cfgs = [JS] if tier == "quick" else [JS, CM]
    menu = [""] + SPELLED_PREFIX + list(PREFIX_MENU)
    colons = [":"] + COLONS
    for cfg in cfgs:
        for fname, frame in FRAMES.items():
            for word, idx in CASE_IDX.items():
                base = {"cfg": cfg, "frame": list(frame), "word": word, "case_idx": idx, "name": f"{fname}-{word}"}
                # concrete prefix/colon spellings chosen by a symbolic index, symbolic letter case
                jobs.append({"harness": "producer", "params": dict(base, prefix_menu=menu, name=f"{fname}-{word}-prefixes"),
                             "weight": 6, "cpu_cap": 1500, "wall_cap": 2400})
                jobs.append({"harness": "producer", "params": dict(base, colon_menu=colons, case_idx=idx[:2], name=f"{fname}-{word}-colons"),
                             "weight": 2, "cpu_cap": 900, "wall_cap": 1500})
                if tier == "thorough" and fname in ("link", "autolink", "refdef"):
                    # one fully symbolic prefix character (ASCII + non-ASCII representatives): 10-30 CPU-s per path
                    jobs.append({"harness": "producer", "params": dict(base, prefix_free=True, case_idx=idx[:1], name=f"{fname}-{word}-freeprefix"),
                                 "weight": 40, "cpu_cap": 6000, "wall_cap": 7200})
    return jobs


# ------------------------------------------------------------------ E2 kernel


def pre_checks(tier, seed, log):
    import z3

    from ..engine_smt import FnTranslator, Term, Unsupported, in_alphabet, second_opinion, solve
    from markdown_it.common import normalize_url as nu

    results = []

    def ci(word):
        return z3.Concat(*[z3.Union(z3.Re(c), z3.Re(c.upper())) if c.isalpha() else z3.Re(c) for c in word])

    def res(name, status, **kw):
        r = {"id": f"C05-kernel-{name}", "prop": "C05", "harness": "E2-kernel", "params": {"query": name}, "status": status,
             "messages": [], "paths": [], "n_paths": 0, "choices": 0, "smt_checks": 0, "smt_time": 0, "cpu_s": 0, "wall_s": 0,
             "free": [{"name": "u", "kind": "z3 String", "alphabet": "URL-safe ASCII, any length"}],
             "functions": ["normalize_url.validateLink (AST)", "BAD_PROTO_RE", "GOOD_DATA_RE"], "confirmed_paths": 0}
        r.update(kw)
        results.append(r)
        log(f"  kernel {name}: {status} {kw.get('messages', '')}")
        return r

    assert not (set(URLSAFE) & set(" \t\n\r\x0b\x0c")), "strip() must be the identity on the domain"
    u = z3.String("u")
    t0 = time.perf_counter()
    try:
        tr = FnTranslator(nu.validateLink, assume_none=("validator",))
        accepted = tr.run(url=Term(u))
        if accepted is None:
            raise Unsupported("no return value")
    except Unsupported as e:
        res("translate", "SMT_INCONCLUSIVE", messages=[{"state": "UNSUPPORTED", "message": f"cannot translate validateLink: {e}"}])
        return results
    except Exception as e:
        res("translate", "SMT_INCONCLUSIVE", messages=[{"state": "ERROR", "message": f"translator failed: {e!r}"}])
        return results
    full = z3.Full(z3.ReSort(z3.StringSort()))
    bad = z3.InRe(u, z3.Concat(z3.Union(*[ci(w) for w in BAD]), z3.Re(":"), full))
    good = z3.InRe(u, z3.Concat(ci("data:image/"), z3.Union(*[ci(w) for w in ("gif", "png", "jpeg", "webp")]), z3.Re(";"), full))
    dom = in_alphabet(u, URLSAFE)
    # translator validation: the encoding must agree with the real function on concrete URLs
    from markdown_it.common.normalize_url import validateLink

    probes = ["javascript:x", "JaVaScRiPt:x", "vbscript:", "file:///etc", "FILE:x", "data:text/html;x", "data:image/png;base64,x",
              "DATA:image/GIF;x", "data:image/svg+xml;x", "http://a/javascript:", "x", "", "data:", "Data:image/jpeg;", "datA:image/webp;q",
              "javascript", "vbscript:alert(1)", "/javascript:x", "mailto:a@b", "data:image/png", "%6Aavascript:x"]
    agree = 0
    for pz in probes:
        r_, m_, dt_, _ = solve([u == z3.StringVal(pz), accepted], timeout_ms=20000)
        want = bool(validateLink(pz))
        if (r_ == "sat") != want:
            res("translator-validation", "SMT_INCONCLUSIVE",
                messages=[{"state": "MISMATCH", "message": f"encoding says {r_} for {pz!r}, real validateLink says {want}"}])
            return results
        agree += 1
    # vacuity / reachability witnesses
    for name, cons in (("reach-accepted", [dom, accepted]), ("reach-bad", [dom, bad, z3.Not(good)]),
                       ("reach-rejected-bad", [dom, z3.Not(accepted), bad])):
        r_, m_, dt_, _ = solve(cons, timeout_ms=60000)
        if r_ != "sat":
            res(name, "SMT_INCONCLUSIVE", messages=[{"state": "VACUOUS", "message": f"reachability witness {name} is {r_}"}])
            return results
    # the property query
    r_, model, dt, smt2 = solve([dom, accepted, bad, z3.Not(good)], timeout_ms=120000)
    others = second_opinion(smt2)
    info = {"z3-5.x": r_, **others, "solver_time_s": round(dt, 3), "translation_log": tr.log, "translator_probes_agreed": agree}
    sample = {"job": "C05-kernel", "query": "exists u in URLSAFE*: validateLink(u) and browser-scheme(u) in {javascript,vbscript,file,data} and not good-data-image(u)",
              "verdicts": info}
    if r_ == "unsat":
        dis = [k for k, v in others.items() if v == "sat"]
        if dis:
            res("property", "SMT_INCONCLUSIVE", messages=[{"state": "DISAGREE", "message": f"solvers disagree: {info}"}], sample=sample)
        else:
            res("property", "SMT_HOLDS", smt_checks=4 + agree, smt_time=round(time.perf_counter() - t0, 3), sample=sample,
                messages=[{"state": "UNSAT", "message": json.dumps(info)[:600]}])
    elif r_ == "sat":
        uval = model.get("u", "")
        recs, _ = _kernel_native(uval)
        body = {"prop": "C05", "harness": "kernel_replay", "params": {}, "values": {"u": uval}, "records_symbolic": recs, "job": "C05-kernel"}
        h = hashlib.sha256(json.dumps(body, sort_keys=True).encode()).hexdigest()[:12]
        d = os.path.join(HERE, "replays", "C05")
        os.makedirs(d, exist_ok=True)
        fn = os.path.join(d, f"{h}.json")
        with open(fn, "w") as f:
            json.dump(body, f, indent=1)
        if recs:
            res("property", "SMT_VIOLATION", replay=fn, records=recs, sample=sample,
                messages=[{"state": "SAT", "message": f"u={uval!r} accepted by validateLink and browser-dangerous (replayed natively)"}])
        else:
            res("property", "SMT_INCONCLUSIVE", sample=sample,
                messages=[{"state": "NONREPRO", "message": f"model u={uval!r} does not reproduce natively: encoding wrong"}])
    else:
        res("property", "SMT_INCONCLUSIVE", messages=[{"state": "UNKNOWN", "message": f"z3 answered {r_}"}], sample=sample)
    return results


def thorough_extra(seed):
    jobs = []
    for name, extra in shard_extras("a"):
        jobs.append({"harness": "alphabet", "params": {"k": 2, "shard": name, "shard_extra": extra}, "weight": 18})
    menu = [""] + SPELLED_PREFIX + list(PREFIX_MENU)
    for fname, frame in FRAMES.items():
        for word, idx in CASE_IDX.items():
            base = {"cfg": CM, "frame": list(frame), "word": word, "case_idx": idx, "name": f"{fname}-{word}-cm"}
            jobs.append({"harness": "producer", "params": dict(base, prefix_menu=menu), "weight": 6})
            if fname in ("link", "autolink", "refdef") and word in ("file", "javascript"):
                # one fully symbolic prefix character (ASCII + non-ASCII representatives): 10-30 CPU-s per path
                jobs.append({"harness": "producer", "params": dict(base, cfg=JS, prefix_free=True, case_idx=idx[:1], name=f"{fname}-{word}-freeprefix"),
                             "weight": 40, "path_cap": 120})
    for j in jobs:
        j["cpu_cap"] = 6000
        j["wall_cap"] = 7200
    return jobs
