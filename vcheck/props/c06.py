"""C06 — CommonMark container laws: quoting or list-indenting a document nests its blocks."""
from __future__ import annotations

from .. import scaffolds as S
from ..engine_ch import Free, Harness
from ..mdutil import block_parse, build_doc, exc_record, free_doc, get_md, scaffold_frees, shard_extras

EXPLANATION = (
    "Metamorphic check on the real block parser: a symbolic document D and its wrapping (every line prefixed '> ', or first line "
    "prefixed with a list marker and the others indented by its width) are both parsed on each path; the wrapped stream must be the "
    "container shell around D's tokens with levels shifted, same maps, same inline content, same env references."
)
BOUNDS = {
    "quick": "D = FREE(3)+newline (newline among the free values => 1-3 lines), no tab/CR/NUL; wrappers: quote, list '- ' (FREE(3)), list '12)   ' (FREE(2)); "
             "CTX documents (list, quote+lazy, fence, code, heading, setext, reference definition, html block) with 1 free character; "
             "double wrapping quote(quote), quote(list), list(quote) on FREE(2)",
    "thorough": "FREE(4); all six marker shapes x 1-4 spaces; CTX with 2 free characters; depth-3 wrappings",
}
OUTSIDE = "more than 4 free characters; tabs (C17); depth > 3; table rule in the list form (excluded by the statement)"
ASSUMPTIONS = ["no tab/CR/NUL in D", "list form: D[0] is not a space; the combined first line is not a thematic break (decided by running the "
               "real parser on that line alone, before the comparison)", "commonmark preset (no table rule)", "hidden flag ignored in list form; "
               "leading spaces of content lines ignored in list form (lazy continuation lines)"]

CM = S.CM
NOTAB = {"exclude": "\t\r\0"}
FIELDS = ("type", "tag", "nesting", "markup", "info", "block")


def wrap_quote(d: str) -> str:
    lines = d.split("\n")[:-1]
    out = ""
    for ln in lines:
        out = out + "> " + ln + "\n"
    return out


def wrap_list(d: str, marker: str) -> str:
    lines = d.split("\n")[:-1]
    w = len(marker)
    out = marker + lines[0] + "\n"
    for ln in lines[1:]:
        out = out + " " * w + ln + "\n"
    return out


def _norm_content(c: str, list_form: bool) -> str:
    if not list_form:
        return c
    return "\n".join(x.lstrip(" ") for x in c.split("\n"))


def compare(base, benv, wrapped, wenv, shell, list_form, recs, tag):
    """shell = list of (type) expected at the start (and mirrored at the end)."""
    k = len(shell)
    if len(wrapped) != len(base) + 2 * k:
        recs.append({"key": "container-token-count", "form": tag, "detail": f"{len(wrapped)} tokens for {len(base)} inner + shell {k}"})
        return
    for i, ty in enumerate(shell):
        if wrapped[i].type != ty + "_open" or wrapped[-1 - i].type != ty + "_close":
            recs.append({"key": "container-shell", "form": tag, "detail": f"position {i}: {wrapped[i].type}"})
            return
        if wrapped[i].level != i or wrapped[-1 - i].level != i:
            recs.append({"key": "container-shell-level", "form": tag})
    for j, b in enumerate(base):
        w = wrapped[k + j]
        for f in FIELDS:
            if getattr(b, f) != getattr(w, f):
                recs.append({"key": "container-inner-field", "form": tag, "field": f, "ttype": b.type})
                return
        if w.level != b.level + k:
            recs.append({"key": "container-inner-level", "form": tag, "ttype": b.type})
            return
        if b.map != w.map:
            recs.append({"key": "container-inner-map", "form": tag, "ttype": b.type, "detail": f"{b.map} vs {w.map}"})
            return
        if _norm_content(b.content, list_form) != _norm_content(w.content, list_form):
            recs.append({"key": "container-inner-content", "form": tag, "ttype": b.type})
            return
        if dict(b.attrs or {}) != dict(w.attrs or {}):
            recs.append({"key": "container-inner-attrs", "form": tag, "ttype": b.type})
            return
        if not list_form and b.hidden != w.hidden:
            recs.append({"key": "container-inner-hidden", "form": tag, "ttype": b.type})
            return
    if benv.get("references", {}) != wenv.get("references", {}):
        recs.append({"key": "container-references", "form": tag})
    if benv.get("duplicate_refs", []) != wenv.get("duplicate_refs", []):
        recs.append({"key": "container-duplicate-refs", "form": tag})


def _free(params):
    return scaffold_frees(params["scaffold"], params.get("spec", {}))


def _prepare(params):
    get_md(params["cfg"])


def _is_hr_line(md, line: str) -> bool:
    toks, _ = block_parse(md, line + "\n")
    return bool(toks) and toks[0].type == "hr"


def _run(params, values):
    md = get_md(params["cfg"])
    d = build_doc(params["scaffold"], values)
    recs = []
    obs = []
    cur = d
    try:
        for wname in params["wraps"]:
            if wname == "quote":
                nxt = wrap_quote(cur)
                shell = ["blockquote"]
                list_form = False
            else:
                marker = wname.split(":", 1)[1]
                if cur[0] == " " or cur[0] == "\n":
                    return [], "assume: first character is a space/newline"
                first = cur.split("\n")[0]
                if _is_hr_line(md, marker + first):
                    return [], "assume: combined first line is a thematic break"
                nxt = wrap_list(cur, marker)
                shell = ["ordered_list" if marker.strip()[-1] in ".)" and marker.strip()[0].isdigit() else "bullet_list", "list_item"]
                list_form = True
            base, benv = block_parse(md, cur)
            wrapped, wenv = block_parse(md, nxt)
            compare(base, benv, wrapped, wenv, shell, list_form, recs, wname)
            obs.append([(t.type, t.level, t.map, t.content) for t in wrapped])
            cur = nxt
    except Exception as e:
        return [exc_record(e, "block")], "raised"
    return recs, obs


HARNESSES = {
    "law": Harness("law", _free, _run, prepare=_prepare,
                   functions=("ParserBlock.parse", "blockquote", "list_block", "StateBlock", "paragraph", "reference",
                              "all commonmark block rules")),
}

CTX_DOCS = [
    ("list", ["- a\n- ", {"v": "a"}, "\n"]), ("quote-lazy", ["> a\n", {"v": "a"}, "\n"]), ("fence", ["```\n", {"v": "a"}, "\n```\n"]),
    ("code", ["a\n\n    ", {"v": "a"}, "\n"]), ("heading", ["# ", {"v": "a"}, "\n"]), ("setext", ["a\n", {"v": "a"}, "\n"]),
    ("refdef", ["[a]: /u\n", {"v": "a"}, "\n"]), ("refdef-title", ["[a]: /u '\n", {"v": "a"}, "'\n"]), ("html", ["<div>\n", {"v": "a"}, "\n"]),
    ("olist", ["1. a\n", {"v": "a"}, ". b\n"]), ("indented-later", ["a\n\n   ", {"v": "a"}, " b\n"]), ("indented-fence", ["a\n```\n ", {"v": "a"}, "\n```\n"]), ("loose", ["- a\n\n", {"v": "a"}, " b\n"]), ("blank-mid", ["a\n", {"v": "a"}, "\nb\n"]),
]
MARKERS_QUICK = ["- ", "12)   "]
MARKERS_ALL = ["- ", "*  ", "+   ", "-    ", "1. ", "9) ", "123.  ", "12)   ", "7.    "]


def _sharded(jobs, base, var="a", weight=1, spec=None):
    for name, extra in shard_extras(var, exclude=(spec or {}).get(var, {}).get("exclude", "")):
        p = dict(base)
        if name == "chr60" and len(p["scaffold"]) == 4 and p.get("quick"):
            p["scaffold"] = free_doc(2, "\n")  # documents starting with '<' (HTML block regexes): 500+ CPU-s with three free characters
        sp = {k: dict(v) for k, v in (spec or {}).items()}
        sp[var] = dict(sp.get(var, {}), extra=(f"({sp[var]['extra']}) and ({extra})" if sp.get(var, {}).get("extra") else extra))
        p["spec"] = sp
        p["shard"] = name
        jobs.append({"harness": "law", "params": p, "weight": weight, "cpu_cap": 1200, "wall_cap": 1800})


def jobs(tier, seed):
    jobs = []
    names = "abcdefgh"
    spec = {n: dict(NOTAB) for n in names}
    k = 3 if tier == "quick" else 4
    wrappers = [["quote"]] + [[f"list:{m}"] for m in (MARKERS_QUICK if tier == "quick" else MARKERS_ALL)]
    for i, w in enumerate(wrappers):
        kk = k if (tier == "thorough" or i < 2) else k - 1  # quick: the third marker shape on FREE(2)
        _sharded(jobs, {"cfg": CM, "scaffold": free_doc(kk, "\n"), "wraps": w, "quick": tier == "quick"}, weight=10, spec=spec)
    doubles = [["quote", "quote"], ["list:- ", "quote"], ["quote", "list:1. "]]
    if tier == "quick":
        doubles = [["list:1. ", "quote"], ["quote", "list:- "]]
    if tier == "thorough":
        doubles += [["list:- ", "list:1. "], ["quote", "quote", "quote"], ["list:- ", "quote", "list:- "]]
    for w in doubles:
        _sharded(jobs, {"cfg": CM, "scaffold": free_doc(2 if tier == "quick" else 3, "\n"), "wraps": w}, weight=8, spec=spec)
    for name, sc in CTX_DOCS:
        qw = [["quote"], ["list:- "]] + ([["list:-   "]] if name in ("setext", "heading", "indented-later") else [])
        for w in (qw if tier == "quick" else wrappers + doubles[:3]):
            jobs.append({"harness": "law", "params": {"cfg": CM, "scaffold": sc, "wraps": w, "spec": spec, "name": name},
                         "weight": 3, "cpu_cap": 900, "wall_cap": 1500})
    return jobs


def thorough_extra(seed):
    jobs = []
    spec = {n: dict(NOTAB) for n in "abcdefgh"}
    for m in MARKERS_ALL:
        if m in ("- ", "12)   "):
            continue
        _sharded(jobs, {"cfg": CM, "scaffold": free_doc(3 if m in ("*  ", "1. ", "9) ") else 2, "\n"), "wraps": [f"list:{m}"]}, weight=10, spec=spec)
    _sharded(jobs, {"cfg": CM, "scaffold": free_doc(3, "\n"), "wraps": ["list:12)   "]}, weight=10, spec=spec)
    for w in (["quote", "quote"], ["list:- ", "list:1. "], ["quote", "quote", "quote"], ["list:- ", "quote", "list:- "]):
        _sharded(jobs, {"cfg": CM, "scaffold": free_doc(2, "\n"), "wraps": w}, weight=8, spec=spec)
    for name, sc in CTX_DOCS:
        for w in [[f"list:{m}"] for m in MARKERS_ALL[1:]] + [["quote", "quote"], ["list:- ", "quote"], ["quote", "list:1. "]]:
            jobs.append({"harness": "law", "params": {"cfg": CM, "scaffold": sc, "wraps": w, "spec": spec, "name": name}, "weight": 3})
    for j in jobs:
        j["cpu_cap"] = 3000
        j["wall_cap"] = 4000
    return jobs
