"""C16 — reference definitions act through env: seeding env equals prepending them (partial claim)."""
from __future__ import annotations

from .. import scaffolds as S
from ..engine_ch import Free, Harness
from ..mdutil import deep_equal, exc_record, get_md, stream_view, urlish
from ..sym import no_tracing, realize

EXPLANATION = (
    "Pipeline executed symbolically on a definitions block R and a document D: render(D, env seeded by parsing R once/twice) must equal the D part of "
    "render(R + blank + D); first definition wins, later ones go to duplicate_refs, every definition is recorded exactly once with the map of its own "
    "lines; the reference form and the inline form of a link/image give identical tokens.  Labels come from a concrete menu (case variants incl. "
    "sharp s and theta variants, internal blank runs, duplicates) chosen by a symbolic index; destination/title/text carry free characters."
)
BOUNDS = {
    "quick": "3 definitions and one use with labels chosen by the solver from the 12-label menu (all 20736 combinations, concrete title and text); "
             "reference-vs-inline form on the concrete triple (text, destination, title), links and images",
    "thorough": "plus (not core): 1-2 free characters in title/link text on fixed label layouts; reference-vs-inline form with one or two free characters in "
                "destination (ASCII + 7 non-ASCII representatives), title, text, both presets",
}
OUTSIDE = ("label matching as Unicode case folding for ALL labels is not decided: symbolic lower()/upper() costs ~27 s per path (C-level Unicode tables), the menu "
           "exercises it; definitions spanning more lines than the scaffolds")
ASSUMPTIONS = ["CR/NUL-free sources", "R consists of reference definitions only (so its own rendering is empty)"]

JS = S.JS
CM = S.CM
LABELS = ["foo", "FOO", "Foo", "ß", "ẞ", "SS", "ϑ", "θ", "Θ", "a  b", "a b", "A\tB"]
# labels that must match each other (same equivalence class index)
CLASS = {"foo": 0, "FOO": 0, "Foo": 0, "ß": 1, "ẞ": 1, "SS": 1, "ϑ": 2, "θ": 2, "Θ": 2, "a  b": 3, "a b": 3, "A\tB": 3}


def _free(params):
    fr = [Free(f"l{i}", kind="int", lo=0, hi=len(LABELS) - 1) for i in range(params["ndef"])]
    fr.append(Free("use", kind="int", lo=0, hi=len(LABELS) - 1))
    if params.get("free_title"):
        fr.append(Free("t", exclude="\r\0\n"))
    if params.get("free_text"):
        fr.append(Free("x", exclude="\r\0\n"))
    # quick tier: later definitions and the use come from a 4-label sub-menu (one label of each class)
    if params.get("submenu"):
        for f in fr:
            if f.kind == "int" and f.name != "l0":
                f.extra = f"{f.name} in {params['submenu']!r}"
    return fr


def _prepare(params):
    get_md(params["cfg"])


def _run(params, values):
    md = get_md(params["cfg"])
    labs = [LABELS[realize(values[f"l{i}"])] for i in range(params["ndef"])]
    use = LABELS[realize(values["use"])]
    if not params.get("free_title") and not params.get("free_text"):
        # everything is concrete once the label indices are realised: run the real code at native speed
        with no_tracing():
            return _run_body(params, md, labs, use, "T", values)
    return _run_body(params, md, labs, use, values.get("t", "T"), values)


def _run_body(params, md, labs, use, t, values):
    if t == "'" or t == "\\":
        return [], "assume: title delimiter/escape"
    r_doc = ""
    for i, lb in enumerate(labs):
        r_doc = r_doc + f"[{lb}]: /u{i} '" + (t if i == 0 else f"t{i}") + "'\n"
    d_doc = "[" + values.get("x", "x") + "][" + use + "] ![i][" + use + "] [" + use + "]\n"
    recs = []
    try:
        env1: dict = {}
        md.parse(r_doc, env1)
        refs_once = {k: dict(v) for k, v in env1.get("references", {}).items()}
        h_seeded = md.render(d_doc, env1)
        env2: dict = {}
        md.parse(r_doc, env2)
        md.parse(r_doc, env2)
        h_twice = md.render(d_doc, env2)
        envj: dict = {}
        h_joint = md.render(r_doc + "\n" + d_doc, envj)
        h_r = md.render(r_doc, {})
    except Exception as e:
        return [exc_record(e, "pipeline")], "raised"
    if h_r != "":
        return [], "assume: R is not definitions only"
    if h_seeded != h_joint:
        recs.append({"key": "seeded-env-differs-from-prepending"})
    if h_twice != h_seeded:
        recs.append({"key": "seeding-twice-differs"})
    # bookkeeping: first wins, later are duplicates, each definition recorded exactly once with its own map
    refs = envj.get("references", {})
    dups = envj.get("duplicate_refs", [])
    if len(refs) + len(dups) != len(labs):
        recs.append({"key": "definition-count", "detail": f"{len(refs)}+{len(dups)} for {len(labs)} definitions"})
    seen = {}
    nd = 0
    for i, lb in enumerate(labs):
        c = CLASS[lb]
        if c not in seen:
            seen[c] = i
        else:
            if nd >= len(dups) or dups[nd].get("map") != [i, i + 1] or dups[nd].get("href") != f"/u{i}":
                recs.append({"key": "duplicate-not-recorded", "detail": f"definition {i}"})
                break
            nd += 1
    firsts = sorted(seen.values())
    got = sorted(v["map"][0] for v in refs.values())
    if got != firsts:
        recs.append({"key": "first-definition-does-not-win", "detail": f"{got} vs {firsts}"})
    for v in refs.values():
        i = v["map"][0]
        if v["map"] != [i, i + 1] or v["href"] != f"/u{i}":
            recs.append({"key": "definition-map-or-href"})
            break
    # label matching on the menu: the use resolves iff some definition is in its class
    resolved = "<a href" in h_joint
    if resolved != (CLASS[use] in seen):
        recs.append({"key": "label-matching", "detail": f"use {use!r} defs {labs!r} resolved={resolved}"})
    return recs, h_joint


def _form_free(params):
    fr = []
    vary = params.get("vary", "dtx")
    if "d" in vary:
        fr.append(Free("d", exclude="\r\0\n", extra=urlish("d")))
    if "t" in vary:
        fr.append(Free("t", exclude="\r\0\n"))
    if "x" in vary:
        fr.append(Free("x", exclude="\r\0\n"))
    return fr


def _strip_pos(view):
    out = []
    for d in view:
        d = dict(d)
        d.pop("map", None)
        if d.get("children"):
            d["children"] = _strip_pos(d["children"])
        out.append(d)
    return out


def _form_run(params, values):
    md = get_md(params["cfg"])
    d, t, x = values.get("d", "q"), values.get("t", "u"), values.get("x", "y")
    # keep the free characters from changing the construct itself (decided on the symbolic values)
    if d in " \t<>()\\" or t in "\"\\" or x in "[]\\!`*_<&" or d == "" or ord(d) < 33 or ord(d) == 127:
        return [], "assume: delimiter or control character (not allowed in a bare destination)"
    bang = "!" if params["image"] else ""
    inline_src = bang + "[a" + x + "](/p" + d + " \"T" + t + "\")\n"
    ref_src = bang + "[a" + x + "][r]\n\n[r]: /p" + d + " \"T" + t + "\"\n"
    try:
        ti = md.parse(inline_src)
        tr = md.parse(ref_src)
        hi = md.renderer.render(ti, md.options, {})
        hr = md.renderer.render(tr, md.options, {})
    except Exception as e:
        return [exc_record(e, "pipeline")], "raised"
    recs = []
    ci = _strip_pos(stream_view(ti[1].children or []))
    cr = _strip_pos(stream_view(tr[1].children or []))
    if not deep_equal(ci, cr):
        recs.append({"key": "reference-form-differs-from-inline-form", "image": params["image"]})
    if hi != hr:
        recs.append({"key": "reference-form-renders-differently", "image": params["image"]})
    kind = "image" if params["image"] else "link_open"
    if not any(c["type"] == kind for c in ci):
        recs.append({"key": "form-not-a-link", "detail": "scaffold did not produce the construct"})
    return recs, hi


HARNESSES = {
    "seeded": Harness("seeded", _free, _run, prepare=_prepare,
                      functions=("rules_block.reference", "normalizeReference", "rules_inline.link", "rules_inline.image", "MarkdownIt.parse/render")),
    "forms": Harness("forms", _form_free, _form_run, prepare=_prepare,
                     functions=("rules_inline.link", "rules_inline.image", "rules_block.reference", "parseLinkDestination", "parseLinkTitle", "normalizeLink")),
}


def jobs(tier, seed):
    """quick: all label combinations (solver-chosen indices, concrete title/text).  Jobs with free characters next to reference syntax cost
    30-250 CPU-s per path (character loops of the reference rule and label normalisation on symbolic-typed strings): thorough tier only."""
    jobs = []
    for l0 in range(len(LABELS)):
        jobs.append({"harness": "seeded", "params": {"cfg": CM, "ndef": 3, "l0": l0}, "weight": 4, "cpu_cap": 3000, "wall_cap": 4000})
    for image in (False, True):
        jobs.append({"harness": "forms", "params": {"cfg": CM, "image": image, "vary": ""}, "weight": 1, "cpu_cap": 600, "wall_cap": 1200})
    return jobs


_of = _free


def _free_sharded(params):
    fr = _of(params)
    if "l0" in params:
        fr[0].lo = fr[0].hi = params["l0"]
    return fr


HARNESSES["seeded"].free = _free_sharded


def thorough_extra(seed):
    jobs = []
    for l0, sub in ((0, [1, 3]), (4, [5, 10])):
        jobs.append({"harness": "seeded", "params": {"cfg": CM, "ndef": 2, "l0": l0, "submenu": sub, "free_title": True},
                     "weight": 60, "cpu_cap": 9000, "wall_cap": 10000, "path_cap": 400})
    for image in (False, True):
        for vary in ("d", "t", "x"):
            jobs.append({"harness": "forms", "params": {"cfg": CM, "image": image, "vary": vary}, "weight": 30, "cpu_cap": 9000, "wall_cap": 10000,
                         "path_cap": 200})
    for l0, sub in ((0, [1, 3]), (4, [5, 10]), (6, [8, 11])):
        jobs.append({"harness": "seeded", "params": {"cfg": CM, "ndef": 2, "l0": l0, "submenu": sub, "free_title": True, "free_text": True},
                     "weight": 60, "cpu_cap": 9000, "wall_cap": 10000, "path_cap": 120})
    for image in (False, True):
        for cfg in (CM, JS):
            for vary in (("dt", "tx") if cfg is CM else ("d", "t", "x")):
                jobs.append({"harness": "forms", "params": {"cfg": cfg, "image": image, "vary": vary}, "weight": 30, "cpu_cap": 9000, "wall_cap": 10000,
                             "path_cap": 120})
    return jobs
