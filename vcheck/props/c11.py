"""C11 — rule management is coherent over any history, including failed calls."""
from __future__ import annotations

from .. import scaffolds as S
from ..engine_ch import Free, Harness
from ..mdutil import build_md, exc_record
from ..sym import no_tracing, realize

EXPLANATION = (
    "Inductive step on the real Ruler class: an arbitrary ruler satisfying the coherence invariant (symbolic rule names incl. duplicates, "
    "symbolic enabled flags and alt sets, cache cold or warm) executes ONE operation with symbolic arguments; afterwards - whether the call "
    "returned or raised KeyError - getRules(chain) for every chain must equal the enabled rules of the table filtered by chain membership, "
    "and for calls that returned the table must equal a 30-line reference model of the set semantics.  Plus short histories from a fresh "
    "ruler and the MarkdownIt facade (enable/disable/get_active_rules + probe parse against an instance built in the reported configuration)."
)
BOUNDS = {
    "quick": "step: 6 ruler layouts (1-3 rules incl. duplicate names, fixed alt sets over chains x,y), symbolic enabled flags, cache cold/warm symbolic, "
             "11 operations with arguments over {a,b,c,zz}, ignoreInvalid symbolic, str-vs-list argument symbolic; histories of 2 operations (4 names) and of 3 operations (2 names) from "
             "an 8-operation menu; facade: 1 call over 5 names (1-2 names per call)",
    "thorough": "same step jobs; histories of 3 operations; facade: 2 calls",
}
OUTSIDE = "rulers with more than 3 rules; more than 2 names per enable/disable call; histories longer than 3 (covered by the inductive step for coherence only)"
ASSUMPTIONS = ["for a call that raised, only coherence is demanded, plus an unchanged table for pure look-ups (at/before/after, enable/disable of a "
               "single unknown name); whether enableOnly/enable with a list containing an unknown name has already applied the valid names is not demanded either way"]

NAMES = ["a", "b", "c"]
ARGN = ["a", "b", "c", "zz"]
CHAINS = ["", "x", "y", "nochain"]
OPS = ["push", "before", "after", "at", "enable1", "enable2", "enableOnly1", "enableOnly2", "disable1", "disable2", "getRules"]


def _table(r):
    return [(x.name, bool(x.enabled), x.fn, list(x.alt)) for x in r.__rules__]


def _expected_chain(tab, chain):
    return [fn for (nm, en, fn, alt) in tab if en and (chain == "" or chain in alt)]


def coherent(r, recs, when):
    tab = _table(r)
    for ch in CHAINS:
        got = list(r.getRules(ch))
        exp = _expected_chain(tab, ch)
        if got != exp:
            recs.append({"key": "applied-differs-from-active", "chain": ch, "when": when})
            return False
    act = r.get_active_rules()
    if act != [nm for (nm, en, fn, alt) in tab if en] or r.get_all_rules() != [nm for (nm, en, fn, alt) in tab]:
        recs.append({"key": "reported-differs-from-table", "when": when})
        return False
    return True


def _find(model, name):
    for i, row in enumerate(model):
        if row[0] == name:
            return i
    return -1


def model_apply(model, op, args):
    """Reference set semantics. model = list of [name, enabled, fn, alt]. Returns (raised, result)."""
    if op == "push":
        model.append([args["name"], True, args["fn"], list(args["alt"])])
        return False, None
    if op in ("before", "after"):
        i = _find(model, args["ref"])
        if i < 0:
            return True, None
        model.insert(i if op == "before" else i + 1, [args["name"], True, args["fn"], list(args["alt"])])
        return False, None
    if op == "at":
        i = _find(model, args["name"])
        if i < 0:
            return True, None
        model[i][2] = args["fn"]
        model[i][3] = list(args["alt"])
        return False, None
    if op.startswith("enableOnly") or op.startswith("enable") or op.startswith("disable"):
        names = args["names"]
        if op.startswith("enableOnly"):
            for row in model:
                row[1] = False
        val = not op.startswith("disable")
        res = []
        for nm in names:
            i = _find(model, nm)
            if i < 0:
                if args["ign"]:
                    continue
                return True, None
            model[i][1] = val
            res.append(nm)
        return False, res
    if op == "getRules":
        return False, None
    raise AssertionError(op)


def real_apply(r, op, args):
    if op == "push":
        return r.push(args["name"], args["fn"], {"alt": list(args["alt"])})
    if op == "before":
        return r.before(args["ref"], args["name"], args["fn"], {"alt": list(args["alt"])})
    if op == "after":
        return r.after(args["ref"], args["name"], args["fn"], {"alt": list(args["alt"])})
    if op == "at":
        return r.at(args["name"], args["fn"], {"alt": list(args["alt"])})
    if op == "getRules":
        return r.getRules(args["chain"])
    base = op.rstrip("12")
    names = args["names"]
    arg = names[0] if (len(names) == 1 and args.get("as_str")) else list(names)
    if base == "enable":
        return r.enable(arg, args["ign"])
    if base == "enableOnly":
        return r.enableOnly(arg, args["ign"])
    if base == "disable":
        return r.disable(arg, args["ign"])
    if op == "getRules":
        return r.getRules(args["chain"])
    raise AssertionError(op)


def _alt_from(values, i, two):
    alt = []
    if values[f"x{i}"]:
        alt.append("x")
    if two:
        if values[f"y{i}"]:
            alt.append("y")
    elif i == 0:
        alt.append("y")
    return alt


def _build_args(op, values, fn_new):
    a1 = ARGN[realize(values["a1"])]
    a2 = ARGN[realize(values["a2"])]
    alt = (["x"] if values["ax"] else []) + (["y"] if values["ay"] else [])
    if op in ("push",):
        return {"name": a1, "fn": fn_new, "alt": alt}
    if op in ("before", "after"):
        return {"ref": a1, "name": a2, "fn": fn_new, "alt": alt}
    if op == "at":
        return {"name": a1, "fn": fn_new, "alt": alt}
    if op == "getRules":
        return {"chain": CHAINS[realize(values["a1"])]}
    names = [a1] if op.endswith("1") else [a1, a2]
    return {"names": names, "ign": values["ign"], "as_str": values["ax"]}


def _step_free(params):
    n = len(params["names"])
    fr = [Free(f"e{i}", kind="bool") for i in range(n)]
    fr += [Free("warm", kind="bool"), Free("a1", kind="int", lo=0, hi=3), Free("ign", kind="bool"), Free("ax", kind="bool")]
    if params["op"] in ("before", "after") or params["op"].endswith("2"):
        fr.append(Free("a2", kind="int", lo=0, hi=1))  # second name: "b" or the unknown "zz"
    return fr


def _step_run(params, values):
    from markdown_it.ruler import Ruler

    op = params["op"]
    r = Ruler()
    model = []
    for i, nm in enumerate(params["names"]):
        alt = list(params["alts"][i])
        r.push(nm, f"fn{i}", {"alt": list(alt)})
        en = True if values[f"e{i}"] else False
        # arbitrary enabled flag, set directly on the table (pre-state construction), cache still cold
        r.__rules__[i].enabled = en
        model.append([nm, en, f"fn{i}", list(alt)])
    recs = []
    warm = True if values["warm"] else False
    if not coherent(r, recs, "pre-state"):
        return [{"key": "harness-prestate-incoherent"}], None
    if not warm:
        r.__cache__ = None  # coherent() warmed it; restore the cold pre-state
    v = dict(values)
    v["a2"] = 1 + 2 * values["a2"] if "a2" in values else 3
    v["ay"] = False
    args = _build_args(op, v, "fnNEW")
    before = [row[:2] + [row[2], list(row[3])] for row in model]
    m_raised, m_res = model_apply(model, op, args)
    raised = False
    res = None
    try:
        res = real_apply(r, op, args)
    except KeyError:
        raised = True
    except Exception as e:
        return [exc_record(e, op)], "raised"
    coherent(r, recs, "after-raise" if raised else "after-return")
    if raised != m_raised:
        recs.append({"key": "raise-behaviour", "op": op, "detail": f"real raised={raised} model raised={m_raised}"})
    elif not raised:
        tab = [[a, b, c, d] for (a, b, c, d) in _table(r)]
        if tab != model:
            recs.append({"key": "table-differs-from-model", "op": op})
        if m_res is not None and res != m_res:
            recs.append({"key": "return-value-differs-from-model", "op": op})
    else:
        pure = op in ("at", "before", "after") or op in ("enable1", "disable1")
        if pure:
            tab = [[a, b, c, d] for (a, b, c, d) in _table(r)]
            if tab != before:
                recs.append({"key": "failed-lookup-changed-table", "op": op})
    return recs, [_table(r), raised]


HOPS = ["push", "at", "enable2", "enableOnly2", "disable2", "getRules", "before", "after"]


def _hist_free(params):
    fr = []
    for st in range(params["k"]):
        lo, hi = 0, len(HOPS) - 1
        if st == 0 and params.get("first") is not None:
            lo = hi = params["first"]
        pmax = 3 if params["k"] <= 2 else 1  # k=3: target name is "a" or "b"
        fr += [Free(f"op{st}", kind="int", lo=lo, hi=hi), Free(f"p{st}", kind="int", lo=0, hi=pmax), Free(f"g{st}", kind="bool")]
    return fr


def _hist_run(params, values):
    from markdown_it.ruler import Ruler

    r = Ruler()
    model = []
    recs = []
    for nm, alt in (("a", ["x"]), ("b", [])):
        r.push(nm, "f_" + nm, {"alt": list(alt)})
        model.append([nm, True, "f_" + nm, list(alt)])
    trace = []
    for s in range(params["k"]):
        op = HOPS[realize(values[f"op{s}"])]
        p_ = values[f"p{s}"]  # k=3: the target is "a" or "b"; the second name of two-name calls alternates between "zz" and "b"
        v = {"a1": p_, "a2": 3 if s % 2 == 0 else 1, "ign": values[f"g{s}"], "ax": False, "ay": False}
        args = _build_args(op, v, f"fnS{s}")
        if op in ("before", "after"):
            args["name"] = f"new{s}"  # inserted rules get fresh names, so that a stale position cannot hide behind a duplicate
        snapshot = [row[:2] + [row[2], list(row[3])] for row in model]
        m_raised, m_res = model_apply(model, op, args)
        raised = False
        try:
            res = real_apply(r, op, args)
        except KeyError:
            raised = True
        trace.append((op, raised))
        if raised != m_raised:
            recs.append({"key": "raise-behaviour", "op": op, "step": s})
            break
        if raised:
            # the model does not say what a failed multi-name call has applied: resynchronise it with the real table
            model = [[a, b, c, list(d)] for (a, b, c, d) in _table(r)]
            if op in ("at", "before", "after", "enable1", "disable1") and model != snapshot:
                recs.append({"key": "failed-lookup-changed-table", "op": op, "step": s})
        else:
            if [[a, b, c, d] for (a, b, c, d) in _table(r)] != model:
                recs.append({"key": "table-differs-from-model", "op": op, "step": s})
                break
            if m_res is not None and res != m_res:
                recs.append({"key": "return-value-differs-from-model", "op": op, "step": s})
        if not coherent(r, recs, f"step{s}"):
            break
    return recs, trace


FACADE_NAMES = ["emphasis", "table", "strikethrough", "text", "bogus"]
PROBE = "*a* ~~b~~ `c`\n\nx|y\n-|-\n1|2\n\n> q\n"


def _fac_free(params):
    fr = []
    for s in range(params["k"]):
        fr += [Free(f"en{s}", kind="bool"), Free(f"i{s}", kind="int", lo=0, hi=4), Free(f"j{s}", kind="int", lo=0, hi=4),
               Free(f"two{s}", kind="bool"), Free(f"g{s}", kind="bool")]
    return fr


def _fac_run(params, values):
    from markdown_it import MarkdownIt

    with no_tracing():
        md = build_md(params["cfg"])
        if params.get("warm"):
            md.render(PROBE)
    recs = []
    trace = []
    for s in range(params["k"]):
        names = [FACADE_NAMES[realize(values[f"i{s}"])]]
        if values[f"two{s}"]:
            names.append(FACADE_NAMES[realize(values[f"j{s}"])])
        before = md.get_active_rules()
        raised = False
        try:
            if values[f"en{s}"]:
                md.enable(names if len(names) > 1 else names[0], values[f"g{s}"])
            else:
                md.disable(names, values[f"g{s}"])
        except ValueError:
            raised = True
        except Exception as e:
            return [exc_record(e, "facade")], "raised"
        unknown = [n for n in names if n == "bogus"]
        if bool(unknown and not values[f"g{s}"]) != raised:
            recs.append({"key": "facade-raise-behaviour", "detail": f"{names} raised={raised}"})
        after = md.get_active_rules()
        trace.append((names, raised))
        if not raised:
            # set semantics on the reported lists
            allr = md.get_all_rules()
            for chain in after:
                exp = [n for n in allr[chain] if ((n in before[chain]) and not (not values[f"en{s}"] and n in names))
                       or (values[f"en{s}"] and n in names)]
                if after[chain] != exp:
                    recs.append({"key": "facade-set-semantics", "chain": chain})
        elif len(names) == 1 and after != before:
            recs.append({"key": "failed-lookup-changed-table", "op": "facade"})
    # what is applied == what is reported: an instance put directly into the reported configuration must parse identically
    with no_tracing():
        ref = build_md(params["cfg"])
    act = md.get_active_rules()
    for chain in ("core", "block", "inline"):
        ref[chain].ruler.enableOnly(act[chain])
    ref.inline.ruler2.enableOnly(act["inline2"])
    try:
        h1 = md.render(PROBE)
        h2 = ref.render(PROBE)
    except Exception as e:
        return [exc_record(e, "facade-probe")], "raised"
    if h1 != h2:
        recs.append({"key": "applied-differs-from-active", "chain": "facade", "when": "probe"})
    for chain, rl in (("core", md.core.ruler), ("block", md.block.ruler), ("inline", md.inline.ruler), ("inline2", md.inline.ruler2)):
        coherent_facade(rl, recs, chain)
    return recs, [trace, h1]


def coherent_facade(r, recs, chain):
    tab = _table(r)
    chains = {""}
    for (_, _, _, alt) in tab:
        chains.update(alt)
    for ch in sorted(chains):
        if list(r.getRules(ch)) != _expected_chain(tab, ch):
            recs.append({"key": "applied-differs-from-active", "chain": f"{chain}/{ch}", "when": "facade"})
            return


HARNESSES = {
    "step": Harness("step", _step_free, _step_run, functions=("Ruler.push/before/after/at/enable/enableOnly/disable/getRules", "Ruler.__compile__", "Ruler.__find__")),
    "history": Harness("history", _hist_free, _hist_run, functions=("Ruler.*",)),
    "facade": Harness("facade", _fac_free, _fac_run, functions=("MarkdownIt.enable", "MarkdownIt.disable", "MarkdownIt.get_active_rules", "MarkdownIt.get_all_rules", "Ruler.*")),
}


LAYOUTS_Q = [(["a"], [["x"]]), (["a", "b"], [["x"], ["y"]]), (["a", "a"], [["x", "y"], []])]
LAYOUTS_T = LAYOUTS_Q + [(["a", "b", "a"], [["x"], ["x", "y"], []]), (["c", "a", "b"], [[], ["y"], ["x"]]), (["b", "b", "b"], [["x"], ["y"], []])]


def jobs(tier, seed):
    jobs = []
    for names, alts in LAYOUTS_T:
        for op in OPS:
            jobs.append({"harness": "step", "params": {"names": names, "alts": alts, "op": op}, "weight": len(names) * 3,
                         "cpu_cap": 1500, "wall_cap": 2400})
    jobs.append({"harness": "step", "params": {"names": [], "alts": [], "op": "push"}, "weight": 1, "cpu_cap": 300, "wall_cap": 600})
    jobs.append({"harness": "step", "params": {"names": [], "alts": [], "op": "enable2"}, "weight": 1, "cpu_cap": 300, "wall_cap": 600})
    if tier == "quick":
        for first in range(len(HOPS)):
            jobs.append({"harness": "history", "params": {"k": 2, "first": first}, "weight": 20, "cpu_cap": 3000, "wall_cap": 4000})
            jobs.append({"harness": "history", "params": {"k": 3, "first": first}, "weight": 30, "cpu_cap": 3000, "wall_cap": 4000})
    else:
        for first in range(len(HOPS)):
            jobs.append({"harness": "history", "params": {"k": 3, "first": first}, "weight": 40, "cpu_cap": 6000, "wall_cap": 7200})
    for warm in (False, True):
        jobs.append({"harness": "facade", "params": {"cfg": S.JS, "k": 1, "warm": warm}, "weight": 25, "cpu_cap": 1500, "wall_cap": 2400})
    jobs.append({"harness": "facade", "params": {"cfg": S.CM, "k": 1, "warm": True, "name": "cm"}, "weight": 25, "cpu_cap": 1500, "wall_cap": 2400})
    if tier == "thorough":
        jobs.append({"harness": "facade", "params": {"cfg": S.JS, "k": 2, "warm": True, "name": "js-k2"}, "weight": 60, "cpu_cap": 9000, "wall_cap": 10000})
    return jobs


def thorough_extra(seed):
    jobs = []
    jobs.append({"harness": "facade", "params": {"cfg": S.JS, "k": 2, "warm": True, "name": "js-k2"}, "weight": 60, "cpu_cap": 9000, "wall_cap": 10000})
    return jobs
