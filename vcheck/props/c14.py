"""C14 — an exception escaping from user code leaves the instance intact."""
from __future__ import annotations

from .. import scaffolds as S
from ..engine_ch import Free, Harness
from ..mdutil import build_md, exc_record
from ..sym import no_tracing, realize

EXPLANATION = (
    "Fault injection with a symbolic crash point: every rule of every chain (re-registered through Ruler.at with its alt list), a set of render "
    "rules and the highlight callback are wrapped; the wrapper selected by a symbolic index raises at its i-th invocation (i symbolic: one path per "
    "invocation reached) an exception of a symbolic type.  After the exception has propagated, active/all rules, options and three probe renders "
    "must equal those of a twin instance carrying the same wrappers that never raise.  reset_rules: symbolic body (<= 2 enable/disable calls, then "
    "normal exit / exception / nested block with inner exception)."
)
BOUNDS = {
    "quick": "document fixed (drives all chains: nested containers, links, images, emphasis, fence, table); crash point = 43 callbacks x invocation index x 4 exception types",
    "thorough": "same crash points with one free character in the document (6 positions)",
}
OUTSIDE = "user code that mutates the instance itself before raising; exceptions derived from BaseException only"
ASSUMPTIONS = ["the failed call is render(); the same crash points are reached by parse() (render = parse + renderer)"]

DOC = "# h *e*\n\n> - a [l](/u \"t\") ![i](/v)\n>\n> ```py\n> c\n> ```\n\nx|y\n-|-\n`1`|~~2~~\n\n<http://a.b> &amp; \\* z  \nw\n\n[r]: /w\n\n[r]\n"
PROBES = ["*a* [b](c) `d`\n\n- x\n- y\n", "> q\n\n```js\nf\n```\n\n![i](s)\n", "1. a\n\n| t | u |\n|---|---|\n| 1 | 2 |\n"]
EXCS = ["ValueError", "KeyError", "IndexError", "Custom"]
RENDER_RULES = ["fence", "image", "code_inline", "code_block", "text", "softbreak", "hardbreak", "html_inline"]


class CustomError(Exception):
    pass


def _exc(kind):
    return {"ValueError": ValueError, "KeyError": KeyError, "IndexError": IndexError, "Custom": CustomError}[kind]("injected")


def callbacks(md):
    """[(kind, chain, name)] for the instance (enumerated from the live rule tables)."""
    out = []
    for chain, ruler in (("core", md.core.ruler), ("block", md.block.ruler), ("inline", md.inline.ruler), ("inline2", md.inline.ruler2)):
        for r in ruler.__rules__:
            if r.enabled:
                out.append(("rule", chain, r.name))
    for nm in RENDER_RULES:
        out.append(("render", "renderer", nm))
    out.append(("highlight", "options", "highlight"))
    return out


class Injector:
    def __init__(self, target, at, kind):
        self.target = target  # index into callbacks, or -1 (twin: never raises)
        self.at = at
        self.kind = kind
        self.count = 0
        self.raised = False

    def hit(self, idx):
        if idx != self.target:
            return
        n = self.count
        self.count = n + 1
        if n == self.at:
            self.raised = True
            raise _exc(self.kind)


def install(md, inj):
    cbs = callbacks(md)
    for idx, (kind, chain, name) in enumerate(cbs):
        if kind == "rule":
            ruler = {"core": md.core.ruler, "block": md.block.ruler, "inline": md.inline.ruler, "inline2": md.inline.ruler2}[chain]
            rule = ruler.__rules__[ruler.__find__(name)]
            orig, alt = rule.fn, list(rule.alt)

            def wrapper(*a, _orig=orig, _idx=idx, **kw):
                inj.hit(_idx)
                return _orig(*a, **kw)

            ruler.at(name, wrapper, {"alt": alt})
        elif kind == "render":
            orig = md.renderer.rules.get(name)

            def rwrapper(self, tokens, i, options, env, _orig=orig, _idx=idx, _name=name):
                inj.hit(_idx)
                if _orig is not None:
                    return _orig(tokens, i, options, env)
                return self.renderToken(tokens, i, options, env)

            md.add_render_rule(name, rwrapper)
        else:
            def hl(code, lang, attrs, _idx=idx):
                inj.hit(_idx)
                from markdown_it.common.utils import escapeHtml

                return "<i>HL</i>" + escapeHtml(code)  # distinctive: losing the callback changes probe output

            md.options["highlight"] = hl
    return cbs


def snapshot(md):
    return {"active": md.get_active_rules(), "all": md.get_all_rules(),
            "options": {k: (v if k != "highlight" else (v is not None)) for k, v in dict(md.options).items()},
            "render_rules": sorted(md.renderer.rules)}


def _free(params):
    fr = [Free("which", kind="int", lo=params.get("lo", 0), hi=params.get("hi", 42)), Free("i", kind="int", lo=0, hi=params.get("imax", 60)),
          Free("ek", kind="int", lo=0, hi=3)]
    if params.get("free_pos") is not None:
        fr.append(Free("a", exclude="\r\0"))
    return fr


def _doc(params, values):
    if params.get("free_pos") is None:
        return DOC
    p = params["free_pos"]
    return DOC[:p] + values["a"] + DOC[p + 1:]


def _run(params, values):
    with no_tracing():
        md = build_md(params["cfg"])
        twin = build_md(params["cfg"])
        if params.get("warm"):
            md.render(PROBES[0])
            twin.render(PROBES[0])
    which = realize(values["which"])
    kind = EXCS[realize(values["ek"])]
    inj = Injector(which, values["i"], kind)
    tinj = Injector(-1, -1, kind)
    with no_tracing():
        cbs = install(md, inj)
        install(twin, tinj)
    if which >= len(cbs):
        return [], "assume: callback index out of range"
    doc = _doc(params, values)
    recs = []
    raised = None
    out = None
    try:
        out = md.render(doc)
    except (ValueError, KeyError, IndexError, CustomError) as e:
        raised = e
    except Exception as e:
        return [exc_record(e, "render")], "raised"
    # with a concrete document everything below is a concrete computation: run it at native speed
    import contextlib

    native = no_tracing if params.get("free_pos") is None else contextlib.nullcontext
    try:
        with native():
            tout = twin.render(doc)
    except Exception as e:
        return [exc_record(e, "twin-render")], "raised"
    if inj.raised and raised is None:
        recs.append({"key": "exception-swallowed", "callback": "/".join(cbs[which][1:])})
    if raised is not None and not inj.raised:
        recs.append({"key": "spurious-exception", "exc": type(raised).__name__})
    if raised is None and out != tout:
        recs.append({"key": "wrapper-changes-output"})
    s1, s2 = snapshot(md), snapshot(twin)
    for k in s1:
        if s1[k] != s2[k]:
            recs.append({"key": "state-differs-after-exception", "what": k, "callback": "/".join(cbs[which][1:])})
    inj.target = -1  # stop injecting; the instance must now behave like the twin
    for p in PROBES:
        try:
            with no_tracing():
                a, b = md.render(p), twin.render(p)
        except Exception as e:
            recs.append(dict(exc_record(e, "probe-after-exception"), callback="/".join(cbs[which][1:])))
            break
        if a != b:
            recs.append({"key": "probe-differs-after-exception", "callback": "/".join(cbs[which][1:])})
            break
    return recs, [cbs[which], kind, inj.raised, out]


RULE_NAMES = ["emphasis", "table", "smartquotes"]


def _rr_free(params):
    fr = []
    for s in range(2):
        fr += [Free(f"n{s}", kind="int", lo=0, hi=len(RULE_NAMES) - 1), Free(f"en{s}", kind="bool"), Free(f"do{s}", kind="bool")]
    fr += [Free("exit", kind="int", lo=0, hi=3), Free("ek", kind="int", lo=0, hi=1)]
    return fr


def _rr_run(params, values):
    with no_tracing():
        md = build_md(params["cfg"])
        if params.get("warm"):
            md.render(PROBES[0])
    entry = md.get_active_rules()
    with no_tracing():
        entry_out = [md.render(p) for p in PROBES]
    kind = EXCS[realize(values["ek"])]
    mode = realize(values["exit"])  # 0 normal, 1 exception, 2 nested normal + outer exception, 3 nested inner exception caught outside
    recs = []

    def body():
        for s in range(2):
            if values[f"do{s}"]:
                nm = RULE_NAMES[realize(values[f"n{s}"])]
                if values[f"en{s}"]:
                    md.enable(nm, True)
                else:
                    md.disable(nm, True)

    raised = False
    try:
        with md.reset_rules():
            body()
            if mode == 1:
                raise _exc(kind)
            if mode in (2, 3):
                with md.reset_rules():
                    md.disable("text", True)
                    md.disable("paragraph", True) if False else None
                    if mode == 3:
                        raise _exc(kind)
                if mode == 2:
                    raise _exc(kind)
    except (ValueError, KeyError, IndexError, CustomError):
        raised = True
    except Exception as e:
        return [exc_record(e, "reset_rules")], "raised"
    if raised != (mode != 0):
        recs.append({"key": "exception-swallowed" if not raised else "spurious-exception", "callback": "reset_rules"})
    if md.get_active_rules() != entry:
        recs.append({"key": "reset_rules-not-restored", "exit": ["normal", "exception", "nested+outer-exception", "nested-inner-exception"][mode]})
    else:
        with no_tracing():
            outs = [md.render(p) for p in PROBES]
        if outs != entry_out:
            recs.append({"key": "probe-differs-after-exception", "callback": "reset_rules"})
    return recs, [mode, md.get_active_rules()]


HARNESSES = {
    "inject": Harness("inject", _free, _run, functions=("ParserCore.process", "ParserBlock.tokenize", "ParserInline.tokenize/skipToken/parse",
                                                        "RendererHTML.render/renderInline/fence", "Ruler.at", "MarkdownIt.add_render_rule")),
    "reset_rules": Harness("reset_rules", _rr_free, _rr_run, functions=("MarkdownIt.reset_rules", "MarkdownIt.enable/disable", "Ruler.enableOnly")),
}


def jobs(tier, seed):
    jobs = []
    cfg = dict(S.JS, options={"typographer": True}, enable=["replacements", "smartquotes"])
    # shard by callback index ranges
    ranges = [(0, 6), (7, 11), (12, 17), (18, 18), (19, 21), (22, 25), (26, 29), (30, 33), (34, 38), (39, 42)]
    for lo, hi in ranges:
        for warm in ((False, True) if tier == "thorough" else (True,)):
            jobs.append({"harness": "inject", "params": {"cfg": cfg, "lo": lo, "hi": hi, "warm": warm}, "weight": 10, "cpu_cap": 2400, "wall_cap": 3600})
    if tier == "thorough":
        for pos in (2, 14, 20, 45, 62, 80):
            for lo, hi in ranges:
                jobs.append({"harness": "inject", "params": {"cfg": cfg, "lo": lo, "hi": hi, "warm": True, "free_pos": pos},
                             "weight": 30, "cpu_cap": 3000, "wall_cap": 4000})
    for warm in (False, True):
        jobs.append({"harness": "reset_rules", "params": {"cfg": cfg, "warm": warm}, "weight": 8, "cpu_cap": 2400, "wall_cap": 3600})
    return jobs


def thorough_extra(seed):
    jobs = []
    cfg = dict(S.JS, options={"typographer": True}, enable=["replacements", "smartquotes"])
    ranges = [(0, 6), (7, 11), (12, 17), (18, 18), (19, 21), (22, 25), (26, 29), (30, 33), (34, 38), (39, 42)]
    for lo, hi in ranges:
        jobs.append({"harness": "inject", "params": {"cfg": cfg, "lo": lo, "hi": hi, "warm": False}, "weight": 10, "cpu_cap": 3000, "wall_cap": 4000})
        # one free character in the document (position 14: inside the nested list item)
        jobs.append({"harness": "inject", "params": {"cfg": cfg, "lo": lo, "hi": hi, "warm": True, "free_pos": 14}, "weight": 40, "cpu_cap": 9000,
                     "wall_cap": 10000, "path_cap": 120})
    jobs.append({"harness": "reset_rules", "params": {"cfg": S.CM, "warm": True}, "weight": 8, "cpu_cap": 3000, "wall_cap": 4000})
    return jobs
