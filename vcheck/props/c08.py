"""C08 — verbatim content and recorded markup come from the source, unaltered."""
from __future__ import annotations

from .. import scaffolds as S
from ..engine_ch import Free, Harness
from ..mdutil import block_parse, build_doc, exc_record, free_doc, get_md, scaffold_frees, shard_extras
from ..oracles.verbatim import check_verbatim, code_span_reference
from .c03 import block_ctx_jobs

EXPLANATION = (
    "Block unit executed symbolically; per path the content of code/fence/html blocks is compared line by line with the "
    "symbolic source lines given by the token map, and markup/info/start with the characters written.  Code spans: inline unit "
    "on `..` scaffolds against a 10-line reference of the spec rule."
)
BOUNDS = {
    "quick": "block unit FREE(3)(+newline) js-default; verbatim CTX scaffolds (fence/code/html/hr/heading/list in containers) with 2 free "
             "characters; code spans: backtick strings of length 1-2 around 2 free non-backtick characters",
    "thorough": "FREE(4), CTX x {js-default, commonmark}, code spans with 3 free characters",
}
OUTSIDE = "content lines longer than the free segment; tabs deeper than one container level inside verbatim blocks beyond the scaffolds"
ASSUMPTIONS = ["CR/NUL-free sources (normalised input)", "code-span jobs assume the free characters are not backticks (the scaffold fixes the span)"]

JS = S.JS
CM = S.CM
NOCR = {"exclude": "\r\0"}


def _free(params):
    return scaffold_frees(params["scaffold"], params.get("spec", {}))


def _prepare(params):
    get_md(params["cfg"])


def _run(params, values):
    md = get_md(params["cfg"])
    src = build_doc(params["scaffold"], values)
    try:
        toks, env = block_parse(md, src)
    except Exception as e:
        return [exc_record(e, "block")], "raised"
    recs = check_verbatim(src, toks)
    obs = [(t.type, t.map, t.markup, t.info, t.content if t.type in ("code_block", "fence", "html_block") else None) for t in toks]
    return recs, obs


def _span_free(params):
    k = params["k"]
    return [Free("abcdefgh"[i], exclude="`\r\0") for i in range(k)]


def _span_run(params, values):
    md = get_md(params["cfg"])
    k = params["k"]
    text = "".join(values["abcdefgh"[i]] for i in range(k))
    if params.get("pad"):
        text = " " + text + " "  # padded span: one space is stripped from each side unless the text is all U+0020
    tick = "`" * params["ticks"]
    src = params.get("pre", "") + tick + text + tick + params.get("post", "")
    toks = []
    try:
        md.inline.parse(src, md, {}, toks)
    except Exception as e:
        return [exc_record(e, "inline")], "raised"
    recs = []
    spans = [t for t in toks if t.type == "code_inline"]
    if len(spans) != 1:
        recs.append({"key": "code-span-missing", "detail": f"{len(spans)} code_inline tokens"})
    else:
        exp = code_span_reference(text)
        if spans[0].content != exp:
            # narrow class for known-findings: padding not stripped because str.strip() empties a Unicode blank
            cls = "other"
            if spans[0].content == text.replace("\n", " ") and text.strip() == "":
                cls = "unicode-blank-not-stripped"
            recs.append({"key": "code-span-content", "cls": cls, "detail": "content differs from the text between the backtick strings"})
        if spans[0].markup != tick:
            recs.append({"key": "code-span-markup"})
    return recs, [(t.type, t.content, t.markup) for t in toks]


HARNESSES = {
    "verbatim": Harness("verbatim", _free, _run, prepare=_prepare,
                        functions=("ParserBlock.parse", "StateBlock.getLines", "code", "fence", "html_block", "hr", "heading",
                                   "lheading", "list_block", "blockquote")),
    "codespan": Harness("codespan", _span_free, _span_run, prepare=_prepare,
                        functions=("ParserInline.parse", "rules_inline.backtick")),
}

VERB_CTX = [
    ("fence-body", "```\n"), ("fence-info", "```"), ("tilde-body", "~~~~ x\n"), ("quote-fence", "> ```\n> "),
    ("list-fence", "- ```\n  "), ("code", "    "), ("code-2", "    a\n    "), ("list-code", "- a\n\n      "),
    ("quote-code", ">     "), ("html", "<div>\n"), ("html-quote", "> <div>\n> "), ("hr", "--"), ("hr-star", "* *"),
    ("list-hr", "- **"), ("atx", "#"), ("atx2", "## a "), ("setext", "a\n"), ("olist", "1"), ("olist-2", "12"),
    ("olist-quote", "> 1"), ("tab-code", "\t"), ("tab-list-code", "-\t\t"), ("olist-tab-2nd", "- x\n\t1. a\n\t2"), ("olist-sptab-2nd", "- x\n \t1. a\n \t12"), ("olist-2nd", "1. a\n1"),
    ("fence-close-longer", "```\nx\n```"), ("fence-close-trail", "~~~\nx\n~~~"),
]


def _sharded(jobs, base, var="a", weight=1, spec=None):
    for name, extra in shard_extras(var, exclude=(spec or {}).get(var, {}).get("exclude", "")):
        p = dict(base)
        sp = {k: dict(v) for k, v in (spec or {}).items()}
        sp[var] = dict(sp.get(var, {}), extra=(f"({sp[var]['extra']}) and ({extra})" if sp.get(var, {}).get("extra") else extra))
        p["spec"] = sp
        p["shard"] = name
        jobs.append({"harness": "verbatim", "params": p, "weight": weight, "cpu_cap": 900, "wall_cap": 1500})


def jobs(tier, seed):
    jobs = []
    names = "abcdefgh"
    spec_nocr = {n: dict(NOCR) for n in names}
    spec2 = {"a": dict(NOCR), "b": dict(NOCR)}
    kb = 3 if tier == "quick" else 4
    for cfg in ((JS,) if tier == "quick" else (JS, CM)):
        _sharded(jobs, {"cfg": cfg, "scaffold": free_doc(kb, "\n")}, weight=10, spec=spec_nocr)
    for name, prefix in VERB_CTX:
        for suffix in ("\n", ""):
            if tier == "quick" and suffix == "":
                continue
            for cfg in ((JS,) if tier == "quick" else (JS, CM)):
                jobs.append({"harness": "verbatim",
                             "params": {"cfg": cfg, "scaffold": [prefix, {"v": "a"}, {"v": "b"}] + ([suffix] if suffix else []),
                                        "spec": spec2, "name": name},
                             "weight": 4, "cpu_cap": 900, "wall_cap": 1500})
    ks = 2 if tier == "quick" else 3
    for ticks in (1, 2):
        jobs.append({"harness": "codespan", "params": {"cfg": JS, "k": 1, "ticks": ticks, "pre": "", "post": "", "pad": True},
                     "weight": 3, "cpu_cap": 900, "wall_cap": 1500})
        for pre, post in (("", ""), ("a ", " b")):
            jobs.append({"harness": "codespan", "params": {"cfg": JS, "k": ks, "ticks": ticks, "pre": pre, "post": post},
                         "weight": 6, "cpu_cap": 900, "wall_cap": 1500})
    return jobs


def thorough_extra(seed):
    jobs = []
    spec_nocr = {n: dict(NOCR) for n in "abcdefgh"}
    spec2 = {"a": dict(NOCR), "b": dict(NOCR)}
    _sharded(jobs, {"cfg": JS, "scaffold": free_doc(4, "\n")}, weight=30, spec=spec_nocr)
    _sharded(jobs, {"cfg": CM, "scaffold": free_doc(3, "\n")}, weight=10, spec=spec_nocr)
    for name, prefix in VERB_CTX:
        jobs.append({"harness": "verbatim", "params": {"cfg": JS, "scaffold": [prefix, {"v": "a"}, {"v": "b"}], "spec": spec2, "name": name + "-eof"}, "weight": 4})
        jobs.append({"harness": "verbatim", "params": {"cfg": CM, "scaffold": [prefix, {"v": "a"}, {"v": "b"}, "\n"], "spec": spec2, "name": name + "-cm"}, "weight": 4})
    for ticks in (1, 2, 3):
        for pre, post in (("", ""), ("a ", " b"), ("*x ", "*")):
            jobs.append({"harness": "codespan", "params": {"cfg": JS, "k": 3, "ticks": ticks, "pre": pre, "post": post}, "weight": 20})
    for j in jobs:
        j["cpu_cap"] = 3000
        j["wall_cap"] = 4000
    return jobs
