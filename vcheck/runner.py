"""Orchestrator: schedule the jobs of one check on a process pool, replay counterexamples
natively, write evidence, print verdict lines, return the exit code.

exit 0  property held on everything explored (KNOWN-FINDING lines allowed)
exit 1  a natively replayed violation that known_findings.json does not list
exit 2  harness error / a core job was inconclusive (never reported as a pass)
"""
from __future__ import annotations

import hashlib
import json
import os
import shutil
import subprocess
import sys
import tempfile
import time

from . import props
from .findings import is_listed, load_all, load_known

HERE = os.path.dirname(os.path.dirname(os.path.abspath(__file__)))
PY = os.path.join(HERE, ".venv", "bin", "python")
NCPU = int(os.environ.get("VERIF_JOBS", os.cpu_count() or 4))


def ensure_venv():
    if not os.path.exists(PY):
        subprocess.run([os.path.join(HERE, "setup.sh")], check=True)


def run_jobs(jobs: list[dict], workdir: str, log=print) -> list[dict]:
    """Run jobs on NCPU worker processes; each job has wall cap job['wall_cap']."""
    pending = sorted(enumerate(jobs), key=lambda ij: (0 if ij[1].get("core", True) else 1, -ij[1].get("weight", 1)))
    running = []  # (idx, job, Popen, start, resfile)
    results: dict[int, dict] = {}
    env = dict(os.environ)
    env["PYTHONPATH"] = HERE + ((os.pathsep + os.environ["VERIF_REPO"]) if os.environ.get("VERIF_REPO") else "")
    env.setdefault("PYTHONHASHSEED", "0")
    t_start = time.time()
    budget = float(os.environ.get("VERIF_THOROUGH_BUDGET_S", "2700"))
    while pending or running:
        while pending and len(running) < NCPU:
            idx, job = pending.pop(0)
            if not job.get("core", True) and time.time() - t_start > budget:
                # thorough tier: deep (non-core) jobs are not started once the wall budget is used up; they are reported as inconclusive
                results[idx] = _dead(job, "UNKNOWN", f"not started: thorough wall budget of {budget:.0f} s used up")
                continue
            jf = os.path.join(workdir, f"job{idx}.json")
            rf = os.path.join(workdir, f"res{idx}.json")
            with open(jf, "w") as f:
                json.dump(job, f)
            lf = open(os.path.join(workdir, f"log{idx}.txt"), "w")
            p = subprocess.Popen([PY, "-m", "vcheck.worker", jf, rf], cwd=HERE, env=env,
                                 stdout=lf, stderr=subprocess.STDOUT)
            running.append((idx, job, p, time.time(), rf, lf))
        time.sleep(0.05)
        still = []
        for (idx, job, p, st, rf, lf) in running:
            rc = p.poll()
            if rc is None:
                if time.time() - st > job.get("wall_cap", 1800):
                    p.kill()
                    p.wait()
                    lf.close()
                    results[idx] = _dead(job, "WALL_TIMEOUT", f"killed after {job.get('wall_cap', 1800)} s wall")
                    log(f"  job {job['id']}: WALL_TIMEOUT")
                else:
                    still.append((idx, job, p, st, rf, lf))
                continue
            lf.close()
            try:
                with open(rf) as f:
                    results[idx] = json.load(f)
            except Exception as e:
                tail = open(os.path.join(workdir, f"log{idx}.txt")).read()[-2000:]
                results[idx] = _dead(job, "HARNESS_ERROR", f"no result (rc={rc}): {e}\n{tail}")
            r = results[idx]
            log(f"  job {job['id']}: {r['status']} paths={r.get('n_paths')} "
                f"cpu={r.get('cpu_s')}s native_ok={r.get('native_validated')} "
                f"mismatch={r.get('n_native_mismatches')}")
            if os.environ.get("VERIF_FAILFAST") and r["status"] == "COUNTEREXAMPLE" and any(
                    p.get("native_unlisted", 0) > 0 for p in r["paths"][-1:]):
                # development aid (mutant sweeps): stop at the first natively confirmed counterexample
                for (i2, j2, p2, st2, rf2, lf2) in still + [x for x in running if x[0] != idx and x[0] not in results and x not in still]:
                    try:
                        p2.kill(); p2.wait(); lf2.close()
                    except Exception:
                        pass
                    results.setdefault(i2, _dead(j2, "SKIPPED", "fail-fast"))
                for (i2, j2) in pending:
                    results[i2] = _dead(j2, "SKIPPED", "fail-fast")
                pending = []
                still = []
                running = []
                break
        running = still
    return [results[i] for i in range(len(jobs))]


def _dead(job, status, msg):
    return {"id": job.get("id"), "prop": job["prop"], "harness": job["harness"],
            "params": job.get("params", {}), "status": status,
            "messages": [{"state": status, "message": msg}], "paths": [], "n_paths": 0,
            "choices": 0, "smt_checks": 0, "smt_time": 0, "cpu_s": 0, "wall_s": 0, "free": [],
            "functions": [], "confirmed_paths": 0}


def write_replay(prop: str, res: dict, path_rec: dict) -> str:
    body = {"prop": prop, "harness": res["harness"], "params": res.get("params", {}),
            "values": path_rec["values"], "records_symbolic": path_rec["records"],
            "job": res.get("id")}
    h = hashlib.sha256(json.dumps(body, sort_keys=True).encode()).hexdigest()[:12]
    d = os.path.join(HERE, "replays", prop)
    os.makedirs(d, exist_ok=True)
    fn = os.path.join(d, f"{h}.json")
    with open(fn, "w") as f:
        json.dump(body, f, indent=1)
    return fn


def native_replay(fn: str) -> tuple[int, str]:
    env = dict(os.environ)
    env["PYTHONPATH"] = HERE + ((os.pathsep + os.environ["VERIF_REPO"]) if os.environ.get("VERIF_REPO") else "")
    p = subprocess.run([PY, "-m", "vcheck.native", "replay", fn], cwd=HERE, env=env,
                       capture_output=True, text=True, timeout=600)
    return p.returncode, p.stdout + p.stderr


def run_check(prop: str, tier: str, seed: int) -> int:
    t0 = time.time()
    ensure_venv()
    mod = props.module(prop)
    if tier == "thorough" and hasattr(mod, "thorough_extra"):
        # thorough = every quick job (core: must be exhausted) + deeper jobs (not core: an inconclusive deep job is reported
        # and excluded from the claim, but does not turn the check into a harness error)
        jobs = mod.jobs("quick", seed)
        extra = mod.thorough_extra(seed)
        for j in extra:
            j.setdefault("core", False)
            j["cpu_cap"] = min(j.get("cpu_cap", 1800), 1800)
            j["wall_cap"] = min(j.get("wall_cap", 2400), 2400)
        jobs = jobs + extra
    else:
        jobs = mod.jobs(tier, seed)
    for i, j in enumerate(jobs):
        j.setdefault("prop", prop)
        j.setdefault("id", f"{prop}-{j['harness']}-{i}")
        j.setdefault("core", True)
    os.makedirs(os.path.join(HERE, "work"), exist_ok=True)
    workdir = tempfile.mkdtemp(prefix=f"vcheck-{prop}-", dir=os.path.join(HERE, "work"))
    known = load_known(prop)
    print(f"[{prop}] tier={tier} seed={seed} jobs={len(jobs)} workers={NCPU}", flush=True)
    extra = []
    rc_extra = 0
    try:
        if hasattr(mod, "pre_checks"):
            # solver queries that are not CrossHair jobs (E2 / E3); returns list of result dicts
            extra = mod.pre_checks(tier, seed, print)
        results = run_jobs(jobs, workdir, log=lambda s: print(s, flush=True))
    finally:
        shutil.rmtree(workdir, ignore_errors=True)
    results = extra + results
    # each listed finding is replayed concretely on the current tree; its line is printed only if it still reproduces
    known_live = []
    for f in known:
        rp = f.get("reproducer")
        if not rp:
            continue
        body = {"prop": prop, "harness": rp["harness"], "params": rp.get("params", {}), "values": rp["values"]}
        os.makedirs(os.path.join(HERE, "work"), exist_ok=True)
        fn = os.path.join(HERE, "work", f"known-{prop}-{abs(hash(f['what'])) % 10**8}.json")
        with open(fn, "w") as fh:
            json.dump(body, fh)
        rc_k, out_k = native_replay(fn)
        try:
            recs_k = json.loads(out_k[out_k.index("{"):])["records"]
        except Exception:
            recs_k = []
        os.unlink(fn)
        if any(is_listed(r, [f]) for r in recs_k):
            known_live.append(f["what"])
    violations = []  # (replay file, record)
    known_hits: dict[str, int] = {}
    inconclusive = []
    harness_errors = []
    nonrepro = []
    for res in results:
        core = res.get("core", True) if "core" in res else True
        job = next((j for j in jobs if j["id"] == res.get("id")), None)
        if job is not None:
            core = job.get("core", True)
        # known findings seen on explored paths (counted, printed once each)
        for p in res["paths"]:
            for r in p["records"]:
                f = is_listed(r, known)
                if f is not None and p.get("native_unlisted", 0) == 0:
                    known_hits[f["what"]] = known_hits.get(f["what"], 0) + 1
        if res.get("n_native_mismatches"):
            # CrossHair's model disagreed with the interpreter on some path: unless the
            # native run itself shows an unlisted violation, the job is inconclusive.
            bad = [p for p in res["paths"] if p.get("native_unlisted", 0) > 0 and "native_records" in p]
            if not bad and res["status"] != "COUNTEREXAMPLE":
                inconclusive.append((res, "engine validation mismatch", core))
        if res["status"] == "COUNTEREXAMPLE":
            last = res["paths"][-1]
            fn = write_replay(prop, res, last)
            rc, out = native_replay(fn)
            if rc == 1 and hasattr(mod, "confirm_native"):
                with open(fn) as fh:
                    if not mod.confirm_native(json.load(fh)):
                        rc, out = 0, out + "\n(second-stage native confirmation did not reproduce)"
            if rc == 1:
                recs = [r for r in last.get("native_records", last["records"]) if not is_listed(r, known)]
                violations.append((fn, recs, res))
            else:
                nonrepro.append((fn, res, out[-800:]))
        elif res["status"] == "CONFIRMED":
            # paths whose native run shows an unlisted violation although the symbolic run did
            # not (model imprecision) are still real violations of the real code: report them.
            for p in res["paths"]:
                if p.get("native_unlisted", 0) > 0 and not p["unlisted"]:
                    fn = write_replay(prop, res, p)
                    rc, out = native_replay(fn)
                    if rc == 1:
                        recs = [r for r in p.get("native_records", []) if not is_listed(r, known)]
                        violations.append((fn, recs, res))
                        break
        elif res["status"] in ("UNKNOWN", "WALL_TIMEOUT", "VACUOUS"):
            inconclusive.append((res, res["status"], core))
        elif res["status"] == "HARNESS_ERROR":
            harness_errors.append(res)
        elif res["status"] in ("SMT_HOLDS", "SKIPPED"):
            pass
        elif res["status"] == "SMT_VIOLATION":
            violations.append((res["replay"], res.get("records", []), res))
        elif res["status"] == "SMT_INCONCLUSIVE":
            inconclusive.append((res, "solver inconclusive", True))
    # ------------------------------------------------------------------ report
    for what in known_live:
        print(f"KNOWN-FINDING: property={prop} {what} (reproducer replayed; met on {known_hits.get(what, 0)} explored paths)")
    for what, n in sorted(known_hits.items()):
        if what not in known_live:
            print(f"KNOWN-FINDING: property={prop} {what} (met on {n} explored paths)")
    for res, why, core in inconclusive:
        print(f"INCONCLUSIVE job={res.get('id')} reason={why} core={core} "
              f"msg={(res.get('messages') or [{}])[0].get('message', '')[:200]!r}")
    for res in harness_errors:
        print(f"HARNESS-ERROR job={res.get('id')} {(res.get('messages') or [{}])[0].get('message', '')[-1500:]}")
    for fn, res, out in nonrepro:
        print(f"NON-REPRODUCING counterexample job={res.get('id')} replay={fn} (engine artefact; inconclusive)\n{out}")
    for fn, recs, res in violations:
        print(f"VIOLATION property={prop} replay={fn}")
        for r in recs[:5]:
            print(f"  record: {json.dumps(r, default=str)[:600]}")
    wall = time.time() - t0
    write_evidence(prop, tier, seed, mod, jobs, results, violations, inconclusive, harness_errors,
                   nonrepro, known_hits, wall)
    if violations:
        rc = 1
    elif harness_errors or nonrepro or any(core for _, _, core in inconclusive):
        rc = 2
    else:
        rc = 0
    n_paths = sum(r.get("n_paths", 0) for r in results)
    print(f"[{prop}] done rc={rc} jobs={len(results)} paths={n_paths} wall={wall:.1f}s", flush=True)
    return rc


def write_evidence(prop, tier, seed, mod, jobs, results, violations, inconclusive, harness_errors,
                   nonrepro, known_hits, wall):
    n_paths = sum(r.get("n_paths", 0) for r in results)
    nontrivial = sum(1 for r in results for p in r["paths"] if p.get("nontrivial", True))
    samples = []
    for r in results:
        for p in r["paths"][:2]:
            samples.append({"job": r.get("id"), "params": r.get("params"), "input": p["values"],
                            "records": p["records"]})
        if len(samples) >= 12:
            break
    for r in results:
        if r.get("sample"):
            samples.append(r["sample"])
    table = []
    for r in results:
        table.append({
            "job": r.get("id"), "harness": r.get("harness"), "params": r.get("params"),
            "free": r.get("free"), "status": r["status"], "paths": r.get("n_paths", 0),
            "confirmed_paths": r.get("confirmed_paths", 0), "branch_decisions": r.get("choices", 0),
            "smt_queries": r.get("smt_checks", 0), "solver_time_s": r.get("smt_time", 0),
            "cpu_s": r.get("cpu_s", 0), "wall_s": r.get("wall_s", 0),
            "native_validated": r.get("native_validated", 0),
            "native_mismatches": r.get("n_native_mismatches", 0),
            "functions": r.get("functions", []),
        })
    ev = {
        "property_id": prop,
        "tier": tier,
        "seed": seed,
        "level": "model_checking",
        "coverage": {
            "states": max(n_paths, 0),
            "transitions": sum(r.get("choices", 0) for r in results) + sum(r.get("smt_checks", 0) for r in results if r["status"].startswith("SMT_")),
            "traces_validated_against_impl": sum(r.get("native_validated", 0) for r in results),
            "samples": samples[:16] or [{"note": "no path explored"}],
            "evaluations": n_paths,
            "distinct_nontrivial": nontrivial,
            "rule": "one evaluation = one execution path of the real code exhausted by CrossHair/z3 inside a job's "
                    "bound (each path stands for the whole class of inputs taking it); distinct by construction "
                    "(the search tree never repeats a path); non-trivial = preconditions held and the oracle was evaluated",
            "exhaustive": False,
            "explanation": getattr(mod, "EXPLANATION", ""),
            "jobs_total": len(results),
            "jobs_confirmed_all_paths": sum(1 for r in results if r["status"] in ("CONFIRMED", "SMT_HOLDS")),
            "jobs_inconclusive": [{"job": r.get("id"), "why": why, "core": core} for r, why, core in inconclusive],
            "jobs_harness_error": [r.get("id") for r in harness_errors],
            "non_reproducing_counterexamples": [fn for fn, _, _ in nonrepro],
            "known_findings_seen": known_hits,
            "solver_queries": sum(r.get("smt_checks", 0) for r in results),
            "solver_time_s": round(sum(r.get("smt_time", 0) for r in results), 2),
            "cpu_s_total": round(sum(r.get("cpu_s", 0) for r in results), 1),
            "bounds": getattr(mod, "BOUNDS", {}).get(tier, ""),
            "outside_bounds": getattr(mod, "OUTSIDE", ""),
            "engine": "CrossHair 0.0.110 (library) + z3 " + _z3v(),
            "job_table": table,
        },
        "assumptions": list(getattr(mod, "ASSUMPTIONS", [])) + [
            "CPython 3.12 / z3 / CrossHair's symbolic models of str, re, list, dict (every explored path's "
            "representative is re-run natively and must agree, else the job is inconclusive)",
            "input strings contain no surrogate code points",
        ],
        "wall_s": round(wall, 2),
        "violations": len(violations),
    }
    os.makedirs(os.path.join(HERE, "evidence"), exist_ok=True)
    with open(os.path.join(HERE, "evidence", f"{prop}.json"), "w") as f:
        json.dump(ev, f, indent=1, default=str)


def _z3v():
    try:
        p = subprocess.run([PY, "-c", "import z3; print(z3.get_version_string())"], capture_output=True, text=True)
        return p.stdout.strip()
    except Exception:
        return "?"
