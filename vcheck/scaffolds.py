"""Scaffold families: concrete document skeletons with a few free (symbolic) holes."""
from __future__ import annotations

CM = {"preset": "commonmark"}
JS = {"preset": "js-default"}
ZERO = {"preset": "zero"}
CMT = {"preset": "commonmark", "enable": ["table"]}
NOCR = {"exclude": "\r\0"}

BLOCK_RULES_OPTIONAL = ["code", "fence", "blockquote", "hr", "list", "reference", "html_block", "heading", "lheading"]
INLINE_RULES_OPTIONAL = ["newline", "escape", "backticks", "emphasis", "link", "image", "autolink", "html_inline", "entity"]


def H(v):
    return {"v": v}


def leave_one_out_block():
    cfgs = [dict(JS, disable=[r]) for r in BLOCK_RULES_OPTIONAL + ["table"]]
    return cfgs


def leave_one_out_inline():
    return [dict(JS, disable=[r]) for r in INLINE_RULES_OPTIONAL + ["strikethrough"]]


# Block-level contexts: (name, prefix text) -- two free characters follow the prefix.
BLOCK_CTX = [
    ("quote", "> "),
    ("bullet", "- "),
    ("ordered", "1. "),
    ("quote-list", "> - "),
    ("list-quote", "- > "),
    ("quote-quote", "> > "),
    ("para-next", "a\n"),
    ("quote-lazy", "> a\n"),
    ("list-next", "- a\n"),
    ("list-blank-next", "- a\n\n"),
    ("olist-next", "1. a\n"),
    ("quote-list-next", "> - a\n"),
    ("list-quote-next", "- > a\n"),
    ("fence-open", "```\n"),
    ("tilde-info", "~~~x\n"),
    ("code-next", "    c\n"),
    ("html-next", "<div>\n"),
    ("ref-next", "[a]: /u\n"),
    ("ref-label-next", "[a]:\n"),
    ("ref-title-open", "[a]: /u '\n"),
    ("table-next", "a|b\n-|-\n"),
    ("table-head", "a|b\n"),
    ("quote-table-next", "> a|b\n> -|-\n"),
    ("list-table-next", "- a|b\n  -|-\n"),
    ("quote-empty-last", "> a\n>"),
    ("list-empty-item", "-\n"),
    ("quote-nospace-next", ">a\n>"),
    ("quote-fence-next", "> ```\n> c\n"),
    ("quote-heading-next", "> # h\n"),
    ("olist-tab-next", "1. a\n\t2"),
    ("para-blank-last", "a\n\n"),
]

INLINE_CTX = [
    ("link-dest", ["[a](", H("a"), H("b"), ")"]),
    ("link-title", ["[a](x '", H("a"), H("b"), "')"]),
    ("link-text", ["[", H("a"), H("b"), "](x)"]),
    ("image-alt", ["![", H("a"), H("b"), "](x)"]),
    ("angle", ["<", H("a"), H("b"), ">"]),
    ("entity", ["&", H("a"), H("b"), ";"]),
    ("num-entity", ["&#", H("a"), H("b"), ";"]),
    ("code-span", ["`", H("a"), H("b"), "`"]),
    ("emph", ["*", H("a"), H("b"), "*"]),
    ("strike", ["~~", H("a"), H("b"), "~~"]),
    ("ref-use", ["[a][", H("a"), H("b"), "]\n\n[b]: /u"]),
    ("html-tag", ["<a ", H("a"), H("b"), ">"]),
    ("open-bracket", ["[", H("a"), H("b")]),
    ("bang", ["![", H("a"), H("b")]),
    ("autolink", ["<http://x/", H("a"), H("b"), ">"]),
    ("autolink-mail", ["<a", H("a"), H("b"), "@b.c>"]),
    ("image-in-image", ["![o ![i\\", H("a"), H("b"), " &amp;](x) t](y)"]),
    ("escape-entity", ["a\\", H("a"), H("b"), " &#", H("a"), "5; b"]),
    ("autolinks-concrete", ["<a@b.c> <http://x.y/z> ", H("a"), H("b")]),
]

NEST_CTX = [
    ("nest-quote", ["> > > > > ", H("a"), "\n"], "block"),
    ("nest-list", ["- - - - - ", H("a"), "\n"], "block"),
    ("nest-mixed", ["> - > - > ", H("a"), "\n"], "block"),
    ("nest-bracket", ["[[[[[", H("a"), "]]]]](x)"], "inline_render"),
    ("nest-emph", ["*_*_*", H("a"), "*_*_*"], "inline_render"),
    ("nest-image", ["![![![", H("a"), "](x)](y)](z)"], "inline_render"),
]


QUICK_BLOCK = ("para-next", "quote-table-next", "list-table-next", "table-next", "quote-empty-last", "list-empty-item",
               "quote-lazy", "list-next", "list-blank-next", "fence-open", "html-next", "ref-title-open", "quote-list", "bullet",
               "quote-nospace-next", "quote-fence-next", "quote-heading-next", "olist-tab-next")

URLSLOT = ("link-dest", "ref-next", "ref-label-next", "ref-title-open", "autolink", "autolink-mail")


def _spec_for(name):
    from .mdutil import urlish

    if name.split("-nl")[0].split("-eof")[0] in URLSLOT or name in URLSLOT:
        # autolink bodies: newline excluded - CrossHair's `$` does not model "before a final newline" (AUTOLINK_RE), the
        # native re-run disagrees on exactly that value (see DESIGN.md 10.4)
        ex = "\r\0\n" if name.startswith("autolink") else "\r\0"
        return {"a": dict(exclude=ex, extra=urlish("a")), "b": dict(exclude=ex, extra=urlish("b"))}
    return {"a": dict(NOCR), "b": dict(NOCR)}


def ctx_scaffolds(tier: str):
    """Yield dicts {name, scaffold, cfgs, mode, spec, weight[, maxnest]}."""
    out = []
    nfree = 2
    for name, prefix in BLOCK_CTX:
        if tier == "quick" and name not in QUICK_BLOCK:
            continue
        cfgs = [JS]
        if name == "para-next":
            cfgs = [JS] + (leave_one_out_block() if tier == "thorough" else
                           [dict(JS, disable=[r]) for r in ("heading", "hr", "list", "blockquote", "fence", "html_block")])
        elif tier == "thorough":
            cfgs = [JS, CM]
        for suffix, sname in (("\n", "nl"), ("", "eof")):
            if tier == "quick" and sname == "nl":
                continue
            out.append({"name": f"{name}-{sname}", "scaffold": [prefix, H("a"), H("b")] + ([suffix] if suffix else []),
                        "cfgs": cfgs, "mode": "block", "spec": _spec_for(name), "weight": 4})
    for name, sc in INLINE_CTX:
        if tier == "quick" and name in ("autolink-mail",):
            continue  # ~9 CPU-s per path (e-mail regex on a symbolic string): thorough only
        cfgs = [JS] if tier == "quick" else [JS, CM]
        if tier == "thorough" and name in ("link-text", "emph"):
            cfgs = cfgs + leave_one_out_inline()
        if tier == "quick":
            # one free character per inline context in the quick tier (measured: two cost 600-900+ CPU-s each)
            sc = [p for p in sc if p != H("b")]
        out.append({"name": name, "scaffold": sc, "cfgs": cfgs, "mode": "inline_render", "spec": _spec_for(name),
                    "weight": 4 if tier == "quick" else 30, "shard": tier == "thorough"})
    for name, sc, mode in NEST_CTX:
        if tier == "quick" and name in ("nest-emph", "nest-image"):
            continue
        out.append({"name": name, "scaffold": sc, "cfgs": [JS], "mode": mode, "spec": {"a": dict(NOCR)},
                    "weight": 2, "maxnest": 4})
    return out
