"""C08 oracle: verbatim content and recorded markup come from the source, unaltered."""
from __future__ import annotations

from .maps import split_lines

PREFIX_OK = " \t>0123456789.)-+*"


def _suffix_ok(content_line: str, src_line: str):
    """content_line is src_line minus a removed prefix of blanks/container markers; a partially
    consumed tab may have been replaced by spaces.  Returns None if fine, else a reason."""
    c = content_line
    if src_line.endswith(c):
        removed = src_line[: len(src_line) - len(c)]
    else:
        c2 = c.lstrip(" ")
        if not src_line.endswith(c2):
            return "not a suffix of the source line"
        removed = src_line[: len(src_line) - len(c2)]
        if "\t" not in removed:
            return "leading spaces not explained by a tab"
    for ch in removed:
        if ch not in PREFIX_OK:
            return "removed prefix contains a non-indentation character"
    return None


def _content_lines(content: str):
    if content == "":
        return []
    ls = content.split("\n")
    if content.endswith("\n"):
        ls = ls[:-1]
    return ls


def check_verbatim(src: str, tokens, recs=None):
    recs = [] if recs is None else recs
    lines = split_lines(src)
    n = len(lines)
    for idx, t in enumerate(tokens):
        ty = t.type
        m = t.map
        if m is None or not (0 <= m[0] < m[1] <= n):
            continue  # C03's business
        b, e = m[0], m[1]
        if ty == "code_block":
            cl = _content_lines(t.content)
            if not t.content.endswith("\n"):
                recs.append({"key": "code-no-final-newline", "ttype": ty})
            if len(cl) != e - b:
                recs.append({"key": "verbatim-line-count", "ttype": ty, "detail": f"{len(cl)} vs map [{b},{e})"})
            else:
                for i, c in enumerate(cl):
                    why = _suffix_ok(c, lines[b + i])
                    if why:
                        recs.append({"key": "verbatim-line", "ttype": ty, "detail": f"line {i}: {why}"})
                        break
        elif ty == "fence":
            cl = _content_lines(t.content)
            if len(cl) not in (e - b - 1, e - b - 2):
                recs.append({"key": "verbatim-line-count", "ttype": ty, "detail": f"{len(cl)} vs map [{b},{e})"})
            else:
                for i, c in enumerate(cl):
                    why = _suffix_ok(c, lines[b + 1 + i])
                    if why:
                        recs.append({"key": "verbatim-line", "ttype": ty, "detail": f"line {i}: {why}"})
                        break
            mk = t.markup
            first = lines[b]
            if len(mk) < 3 or (mk[0] not in "`~") or mk != mk[0] * len(mk):
                recs.append({"key": "fence-markup-shape", "ttype": ty})
            elif not first.endswith(mk + t.info):
                recs.append({"key": "fence-markup-info", "ttype": ty, "detail": "opening line does not end with markup+info"})
            else:
                before = first[: len(first) - len(mk) - len(t.info)]
                if before.endswith(mk[0]) or t.info.startswith(mk[0]):
                    recs.append({"key": "fence-markup-count", "ttype": ty})
        elif ty == "html_block":
            cl = _content_lines(t.content)
            if len(cl) != e - b:
                recs.append({"key": "verbatim-line-count", "ttype": ty, "detail": f"{len(cl)} vs map [{b},{e})"})
            else:
                for i, c in enumerate(cl):
                    why = _suffix_ok(c, lines[b + i])
                    if why:
                        recs.append({"key": "verbatim-line", "ttype": ty, "detail": f"line {i}: {why}"})
                        break
        elif ty == "heading_open":
            mk = t.markup
            if mk and mk[0] == "#":
                s = lines[b]
                j = s.find("#")
                run = 0
                if j >= 0:
                    while j + run < len(s) and s[j + run] == "#":
                        run += 1
                if mk != "#" * len(mk) or run != len(mk) or t.tag != "h" + str(len(mk)):
                    recs.append({"key": "heading-markup", "ttype": ty, "detail": f"markup {mk!r} vs run {run}"})
            else:
                under = lines[e - 1]
                if mk not in ("=", "-") or mk not in under or t.tag != ("h1" if mk == "=" else "h2"):
                    recs.append({"key": "lheading-markup", "ttype": ty})
        elif ty == "hr":
            mk = t.markup
            s = lines[b]
            if not mk or mk[0] not in "*-_" or mk != mk[0] * len(mk):
                recs.append({"key": "hr-markup-shape", "ttype": ty})
            elif s.count(mk[0]) != len(mk):
                recs.append({"key": "hr-markup-count", "ttype": ty,
                             "detail": f"markup has {len(mk)} markers, line has {s.count(mk[0])}",
                             "off": len(mk) - s.count(mk[0])})
        elif ty == "blockquote_open":
            if t.markup != ">" or ">" not in lines[b]:
                recs.append({"key": "quote-markup", "ttype": ty})
        elif ty == "bullet_list_open":
            if t.markup not in ("-", "+", "*") or t.markup not in lines[b]:
                recs.append({"key": "list-markup", "ttype": ty})
        elif ty == "ordered_list_open":
            if t.markup not in (".", ")") or t.markup not in lines[b]:
                recs.append({"key": "list-markup", "ttype": ty})
            # first item follows
            it = tokens[idx + 1] if idx + 1 < len(tokens) else None
            if it is None or it.type != "list_item_open":
                recs.append({"key": "olist-no-item", "ttype": ty})
            else:
                st = t.attrs.get("start", 1) if t.attrs else 1
                digits = it.info
                if not digits or not digits.isdigit() or int(digits) != st or (st == 1 and t.attrs and "start" in t.attrs and False):
                    recs.append({"key": "olist-start", "ttype": ty, "detail": f"start {st!r} vs digits {digits!r}"})
        elif ty == "list_item_open":
            s = lines[b]
            if t.markup in (".", ")"):
                if not t.info or (t.info + t.markup) not in s or not all(ch in "0123456789" for ch in t.info):
                    recs.append({"key": "item-info", "ttype": ty, "detail": f"info {t.info!r} markup {t.markup!r}"})
                else:
                    k = s.find(t.info + t.markup)
                    if k > 0 and s[k - 1] in "0123456789":
                        recs.append({"key": "item-info-truncated", "ttype": ty})
            elif t.markup in ("-", "+", "*"):
                if t.markup not in s:
                    recs.append({"key": "item-markup", "ttype": ty})
            else:
                recs.append({"key": "item-markup", "ttype": ty})
    return recs


def code_span_reference(text: str) -> str:
    """Spec: line endings -> spaces; if the result begins AND ends with a space and is not all
    spaces (U+0020), one space is removed from each side."""
    c = text.replace("\n", " ")
    if len(c) >= 2 and c[0] == " " and c[-1] == " ":
        allsp = True
        for ch in c:
            if ch != " ":
                allsp = False
        if not allsp:
            c = c[1:-1]
    return c
