"""C02 oracle: a token stream is well nested, correctly levelled, tree-constructible."""
from __future__ import annotations


def check_stream(tokens, where="top", top_block=True, recs=None, depth_limit=8):
    recs = [] if recs is None else recs
    stack = []
    prev_type = None
    for i, t in enumerate(tokens):
        ty = t.type
        n = t.nesting
        if n == 1:
            if t.level != len(stack):
                recs.append({"key": "level", "ttype": ty, "where": where, "detail": f"idx {i}: level {t.level} != depth {len(stack)}"})
            if not ty.endswith("_open"):
                recs.append({"key": "open-name", "ttype": ty, "where": where})
            stack.append(t)
        elif n == -1:
            if not stack:
                recs.append({"key": "negative-depth", "ttype": ty, "where": where, "detail": f"idx {i}"})
            else:
                o = stack.pop()
                if not (ty.endswith("_close") and o.type[:-5] == ty[:-6]):
                    recs.append({"key": "pair-kind", "ttype": ty, "where": where, "detail": f"{o.type} closed by {ty}"})
                if o.tag != t.tag:
                    recs.append({"key": "pair-tag", "ttype": ty, "where": where, "detail": f"{o.tag!r} vs {t.tag!r}"})
                if o.markup != t.markup:
                    recs.append({"key": "pair-markup", "ttype": ty, "where": where, "detail": f"{o.markup!r} vs {t.markup!r}"})
            if t.level != len(stack):
                recs.append({"key": "level", "ttype": ty, "where": where, "detail": f"idx {i}: level {t.level} != depth {len(stack)}"})
        elif n == 0:
            if t.level != len(stack):
                recs.append({"key": "level", "ttype": ty, "where": where, "detail": f"idx {i}: level {t.level} != depth {len(stack)}"})
        else:
            recs.append({"key": "nesting-value", "ttype": ty, "where": where})
        # flags
        if top_block is True and not t.block:
            recs.append({"key": "block-flag", "ttype": ty, "where": where, "detail": "block-level token not flagged block"})
        if top_block is False and t.block:
            recs.append({"key": "block-flag", "ttype": ty, "where": where, "detail": "inline token flagged block"})
        # placeholders / merging
        if ty == "text_special":
            recs.append({"key": "text_special-survives", "ttype": ty, "where": where})
        if ty == "text" and prev_type == "text":
            recs.append({"key": "adjacent-text", "ttype": ty, "where": where})
        prev_type = ty
        # children
        if ty in ("inline", "image"):
            if t.children is None:
                recs.append({"key": "children-missing", "ttype": ty, "where": where})
            elif depth_limit > 0:
                check_stream(t.children, where=ty, top_block=False, recs=recs, depth_limit=depth_limit - 1)
        else:
            if t.children:
                recs.append({"key": "children-on-leaf", "ttype": ty, "where": where})
    if stack:
        recs.append({"key": "unclosed", "ttype": stack[-1].type, "where": where, "detail": f"{len(stack)} open at end"})
    return recs


def check_tree(tokens, recs):
    from markdown_it.tree import SyntaxTreeNode

    try:
        node = SyntaxTreeNode(tokens)
        flat = node.to_tokens()
        if len(flat) != len(tokens) or any(a is not b for a, b in zip(flat, tokens)):
            recs.append({"key": "tree-roundtrip", "where": "top"})
    except Exception as e:
        recs.append({"key": "tree-construct", "where": "top", "exc": type(e).__name__})
    return recs
