"""C04 oracle: strict scanner of renderer output (html option off), over code points (see symstr)."""
from __future__ import annotations

from ..sym import no_tracing
from ..symstr import ceq, cps, equals, find, one_of, starts

VOCAB = ("p", "h1", "h2", "h3", "h4", "h5", "h6", "blockquote", "ul", "ol", "li", "pre", "code", "em", "strong",
         "s", "a", "img", "hr", "br", "table", "thead", "tbody", "tr", "th", "td")
VOID = ("img", "hr", "br")
ATTRS = ("href", "src", "alt", "title", "class", "style", "start")
ENTS = ("amp;", "lt;", "gt;", "quot;")
LT, GT, QUOT, AMP, SP, SLASH, EQ = 60, 62, 34, 38, 32, 47, 61


def _check_amp(c, a, b, recs, where):
    i = a
    while i < b:
        if ceq(c[i], AMP):
            ok = False
            for e in ENTS:
                if i + 1 + len(e) <= b and starts(c, i + 1, e):
                    ok = True
                    break
            if not ok:
                recs.append({"key": "html-raw-amp", "where": where})
                return
        i += 1


def _check_text(c, a, b, recs):
    for i in range(a, b):
        if ceq(c[i], GT):
            recs.append({"key": "html-raw-gt-in-text"})
            break
    for i in range(a, b):
        if ceq(c[i], QUOT):
            recs.append({"key": "html-raw-quote-in-text"})
            break
    _check_amp(c, a, b, recs, "text")


def _name(c, a, b, words):
    for w in words:
        if equals(c, a, b, w):
            return w
    return None


def _check_tag(c, a, b, recs, stack):
    """c[a:b] = text between '<' and '>'."""
    if a < b and ceq(c[a], SLASH):
        name = _name(c, a + 1, b, VOCAB)
        if name is None:
            recs.append({"key": "html-unknown-close-tag"})
            return
        if not stack or stack[-1] != name:
            recs.append({"key": "html-misnested", "detail": f"</{name}> with open {stack[-1] if stack else None}"})
            return
        stack.pop()
        return
    selfclose = False
    if b - a >= 2 and ceq(c[b - 1], SLASH) and ceq(c[b - 2], SP):
        selfclose = True
        b -= 2
    sp = find(c, " ", a, b)
    ne = b if sp < 0 else sp
    name = _name(c, a, ne, VOCAB)
    if name is None:
        recs.append({"key": "html-unknown-tag"})
        return
    pos = ne
    guard = 0
    while pos < b:
        guard += 1
        if guard > 12:
            recs.append({"key": "html-too-many-attrs"})
            return
        if not (ceq(c[pos], SP)):
            recs.append({"key": "html-attr-syntax", "detail": "no space before attribute"})
            return
        eq = find(c, "=", pos + 1, b)
        if eq < 0 or eq + 1 >= b or not (ceq(c[eq + 1], QUOT)):
            recs.append({"key": "html-attr-syntax", "detail": "attribute without quoted value"})
            return
        an = _name(c, pos + 1, eq, ATTRS)
        if an is None:
            recs.append({"key": "html-unknown-attr"})
            return
        end = find(c, '"', eq + 2, b)
        if end < 0:
            recs.append({"key": "html-attr-syntax", "detail": "unterminated value"})
            return
        for i in range(eq + 2, end):
            if ceq(c[i], LT) or ceq(c[i], GT):
                recs.append({"key": "html-raw-angle-in-attr", "attr": an})
                break
        _check_amp(c, eq + 2, end, recs, "attr")
        pos = end + 1
    if name in VOID:
        return
    if selfclose:
        recs.append({"key": "html-selfclosed-nonvoid"})
        return
    stack.append(name)


def scan_html(out, recs=None):
    recs = [] if recs is None else recs
    c = cps(out)
    with no_tracing():
        _scan(c, recs)
    return recs


def _scan(c, recs):
    stack: list = []
    pos = 0
    n = len(c)
    while True:
        lt = find(c, "<", pos, n)
        if lt < 0:
            _check_text(c, pos, n, recs)
            break
        _check_text(c, pos, lt, recs)
        gt = find(c, ">", lt, n)
        if gt < 0:
            recs.append({"key": "html-unterminated-tag"})
            break
        bad = False
        for i in range(lt + 1, gt):
            if ceq(c[i], LT):
                bad = True
                break
        if bad:
            recs.append({"key": "html-lt-in-tag"})
            break
        n0 = len(recs)
        _check_tag(c, lt + 1, gt, recs, stack)
        if len(recs) > n0:
            break
        pos = gt + 1
    if stack and not recs:
        recs.append({"key": "html-unclosed", "detail": f"{stack}"})
    return recs
