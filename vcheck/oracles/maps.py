"""C03 oracle: source maps in range, non-empty, nested, ordered, covering."""
from __future__ import annotations


def nlines(src: str) -> int:
    if not src:
        return 0
    n = src.count("\n")
    return n if src.endswith("\n") else n + 1


def split_lines(src: str):
    ls = src.split("\n")
    if src.endswith("\n"):
        ls = ls[:-1]
    return ls


def is_blank(line: str) -> bool:
    """CommonMark blank line: only spaces and tabs."""
    for ch in line:
        if ch != " " and ch != "\t":
            return False
    return True


def blank_class(line: str) -> str:
    """Narrow classification used by known-findings: a line that Python's str.strip() empties
    although it is not blank in the CommonMark sense (Unicode blanks such as NEL, NBSP, FS)."""
    if is_blank(line):
        return "blank"
    if line.strip() == "":
        return "unicode-blank-only"
    return "text"


PREFIX_CHARS = " \t>0123456789.)-+*"


def _ublank_residue(line: str) -> bool:
    """The line's text after its container prefix is non-empty and consists only of characters str.strip() removes."""
    i = 0
    while i < len(line) and line[i] in PREFIX_CHARS:
        i += 1
    rest = line[i:]
    return rest != "" and rest.strip() == ""


ENDS_NONBLANK = ("paragraph_open", "heading_open", "hr", "code_block", "tr_open")


def check_maps(src: str, tokens, env, recs=None, code_enabled=True):
    recs = [] if recs is None else recs
    lines = split_lines(src)
    n = len(lines)
    stack = []  # open tokens
    prev_end_at_level = {}  # level -> end of the preceding sibling
    covered = [False] * n
    i = 0
    while i < len(tokens):
        t = tokens[i]
        ty = t.type
        if t.nesting == -1:
            if stack:
                stack.pop()
            # leaving a container: siblings inside it are forgotten
            prev_end_at_level.pop(t.level + 1, None)
        m = t.map
        if m is not None:
            b, e = m[0], m[1]
            if not (0 <= b < e <= n):
                recs.append({"key": "map-range", "ttype": ty, "detail": f"[{b},{e}) with {n} lines"})
            else:
                lb = lines[b]
                if is_blank(lb):
                    recs.append({"key": "map-starts-blank", "ttype": ty, "cls": "blank", "detail": f"[{b},{e})"})
                elif lb.strip() == "" and ty in ("paragraph_open", "inline", "heading_open"):
                    # Python-blank first line swallowed by strip(): content does not start in line b
                    pass
                if ty in ENDS_NONBLANK:
                    le = lines[e - 1]
                    if is_blank(le):
                        recs.append({"key": "map-ends-blank", "ttype": ty, "detail": f"[{b},{e})"})
                # nesting
                parent = None
                for o in reversed(stack):
                    if o.map is not None:
                        parent = o
                        break
                if parent is not None:
                    pb, pe = parent.map[0], parent.map[1]
                    if not (pb <= b and e <= pe):
                        recs.append({"key": "map-not-nested", "ttype": ty, "detail": f"[{b},{e}) in {parent.type} [{pb},{pe})"})
                # ordering among siblings (block tokens with a map at the same level)
                if ty != "inline":
                    pe_ = prev_end_at_level.get(t.level)
                    if pe_ is not None and b < pe_:
                        recs.append({"key": "map-order", "ttype": ty, "detail": f"starts {b} before previous sibling end {pe_}"})
                    prev_end_at_level[t.level] = e
                if t.level == 0:
                    for k in range(max(b, 0), min(e, n)):
                        covered[k] = True
                if ty == "inline":
                    _check_inline(t, tokens, i, lines, recs)
        if t.nesting == 1:
            stack.append(t)
        i += 1
    # coverage
    refmaps = []
    refs = env.get("references", {}) if env else {}
    for k in refs:
        mp = refs[k].get("map")
        if mp:
            refmaps.append(mp)
    for d in (env.get("duplicate_refs", []) if env else []):
        mp = d.get("map")
        if mp:
            refmaps.append(mp)
    for mp in refmaps:
        for k in range(max(mp[0], 0), min(mp[1], n)):
            covered[k] = True
    for k in range(n):
        if not covered[k] and not is_blank(lines[k]):
            recs.append({"key": "line-not-covered", "cls": blank_class(lines[k]), "detail": f"line {k}"})
    return recs


def _check_inline(t, tokens, i, lines, recs):
    b, e = t.map[0], t.map[1]
    prev = tokens[i - 1] if i > 0 else None
    content = t.content
    clines = content.split("\n")
    in_cell = prev is not None and prev.type in ("th_open", "td_open")
    is_lheading = prev is not None and prev.type == "heading_open" and prev.markup in ("=", "-")
    expect = e - b
    if len(clines) != expect:
        # classify: the known defect class is "first/last lines of the map whose text (after the container prefix) consists only
        # of Unicode blanks that Python's str.strip() removes although they are not space/tab"
        cls = "other"
        seg = lines[b:e]
        missing = expect - len(clines)
        lead = 0
        while lead < len(seg) and _ublank_residue(seg[lead]):
            lead += 1
        trail = 0
        while trail < len(seg) - lead and _ublank_residue(seg[len(seg) - 1 - trail]):
            trail += 1
        if 0 < missing <= lead + trail:
            cls = "unicode-blank-line-stripped"
        recs.append({"key": "inline-line-count", "ttype": "inline", "cls": cls,
                     "detail": f"{len(clines)} content lines for map [{b},{e})"})
        return
    for k, cl in enumerate(clines):
        srcl = lines[b + k]
        if in_cell:
            srcl = srcl.replace("\\|", "|")
        # a partially consumed tab is replaced by spaces at the start of a content line
        if cl.lstrip(" ") not in srcl:
            recs.append({"key": "inline-line-content", "ttype": "inline", "detail": f"content line {k} not in source line {b + k}"})
            break
