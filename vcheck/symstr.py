"""Fast oracles over symbolic strings.

CrossHair's LazyIntSymbolicStr is backed by a sequence of code points in which the characters that
stem from concrete literals are plain ints and only the characters that stem from the symbolic input are
SymbolicInts.  Oracles that walk the code points under NoTracing run at native speed on the concrete part
and consult the solver (fork) only where a symbolic character is compared - the verdict is still decided
by z3 for every value of the symbolic characters."""
from __future__ import annotations

import sys

from .sym import is_symbolic, no_tracing


def cps(s) -> list:
    """List of code points (ints / SymbolicInts) of a str or symbolic str."""
    if type(s) is str:
        return [ord(c) for c in s]
    if "crosshair.libimpl.builtinslib" in sys.modules:
        from crosshair.libimpl.builtinslib import LazyIntSymbolicStr

        if isinstance(s, LazyIntSymbolicStr):
            from crosshair.tracers import NoTracing, ResumedTracing, is_tracing

            if is_tracing():
                with NoTracing():
                    return _points(s)
            return _points(s)
    # any other symbolic string flavour: go through ord() under tracing
    return [ord(c) for c in s]


def _points(s):
    """Called with tracing off.  The length is taken without the solver when it is concrete; a symbolic length is realised
    under tracing (forks)."""
    from crosshair.core import realize
    from crosshair.tracers import ResumedTracing

    from .engine_ch import _concrete_len

    pts = s._codepoints
    n = _concrete_len(pts)
    if n is not None:
        try:
            return [pts[i] for i in range(n)]
        except BaseException as e:
            if type(e).__name__ != "CrossHairInternal":
                raise
    with ResumedTracing():
        n = realize(len(pts))
        return [pts[i] for i in range(n)]


def ceq(x, o: int) -> bool:
    """x == o where x is an int or a SymbolicInt (decided by the solver; may fork)."""
    if type(x) is int:
        return x == o
    from crosshair.tracers import ResumedTracing, is_tracing

    if is_tracing():
        return True if x == o else False
    with ResumedTracing():
        return True if x == o else False


def lit(text: str) -> list:
    return [ord(c) for c in text]


def starts(c: list, pos: int, text: str) -> bool:
    n = len(text)
    if pos + n > len(c):
        return False
    for k in range(n):
        if not ceq(c[pos + k], ord(text[k])):
            return False
    return True


def find(c: list, ch: str, pos: int = 0, end: int | None = None) -> int:
    o = ord(ch)
    end = len(c) if end is None else end
    while pos < end:
        if ceq(c[pos], o):
            return pos
        pos += 1
    return -1


def equals(c: list, a: int, b: int, text: str) -> bool:
    return b - a == len(text) and starts(c, a, text)


def one_of(c: list, a: int, b: int, words) -> bool:
    for w in words:
        if equals(c, a, b, w):
            return True
    return False


def split_lines(c: list):
    """[(start, end)] of lines (newline-terminated document: no trailing empty line)."""
    out = []
    st = 0
    n = len(c)
    for i in range(n):
        if ceq(c[i], 10):
            out.append((st, i))
            st = i + 1
    if st < n:
        out.append((st, n))
    return out


def replace(c: list, old: str, new: str) -> list:
    """Code-point version of str.replace (left-to-right, non-overlapping)."""
    out = []
    i = 0
    n = len(c)
    k = len(old)
    newc = lit(new)
    while i < n:
        if i + k <= n and starts(c, i, old):
            out.extend(newc)
            i += k
        else:
            out.append(c[i])
            i += 1
    return out


def count(c: list, sub: str) -> int:
    i = 0
    n = len(c)
    k = len(sub)
    tot = 0
    while i + k <= n:
        if starts(c, i, sub):
            tot += 1
            i += k
        else:
            i += 1
    return tot


def contains(c: list, sub: str) -> bool:
    k = len(sub)
    for i in range(len(c) - k + 1):
        if starts(c, i, sub):
            return True
    return False


def same(a: list, b: list) -> bool:
    """Element-wise equality of two code-point lists (symbolic elements decided by the solver)."""
    if len(a) != len(b):
        return False
    for x, y in zip(a, b):
        if x is y:
            continue
        if type(x) is int and type(y) is int:
            if x != y:
                return False
        else:
            from crosshair.tracers import ResumedTracing, is_tracing

            if is_tracing():
                if x != y:
                    return False
            else:
                with ResumedTracing():
                    if x != y:
                        return False
    return True
