"""E3: AST -> generator transformation of Ruler methods (re-read from /repo's current source on every run).

Every method of `Ruler` reachable from `getRules` is re-generated as a generator function with a scheduling
point (`yield`) before each statement; statement-position calls to other transformed methods become
`yield from`.  A caller is then a generator that can be advanced one statement at a time, so that two or three
callers can be interleaved on ONE real Ruler object under a schedule chosen by the solver.

Anything the transformer does not understand raises Unsupported (=> harness error, never a pass).
"""
from __future__ import annotations

import ast
import inspect
import textwrap


class Unsupported(Exception):
    pass


def _self_call(node):
    """name if node is `self.<name>(...)`"""
    if isinstance(node, ast.Call) and isinstance(node.func, ast.Attribute) and isinstance(node.func.value, ast.Name) \
            and node.func.value.id == "self":
        return node.func.attr
    return None


def reachable_methods(cls, entry: str):
    seen, todo = [], [entry]
    while todo:
        name = todo.pop()
        if name in seen:
            continue
        fn = cls.__dict__.get(name)
        if fn is None or not inspect.isfunction(fn):
            raise Unsupported(f"{cls.__name__}.{name} is not a plain method")
        seen.append(name)
        tree = ast.parse(textwrap.dedent(inspect.getsource(fn)))
        for node in ast.walk(tree):
            nm = _self_call(node)
            if nm and inspect.isfunction(cls.__dict__.get(nm)):
                todo.append(nm)
    return seen


class _Yielder(ast.NodeTransformer):
    def __init__(self, methods):
        self.methods = set(methods)
        self.points = 0

    def _check_expr(self, node):
        # calls to transformed methods are only supported as whole expression statements
        for sub in ast.walk(node):
            nm = _self_call(sub)
            if nm in self.methods:
                raise Unsupported(f"call to self.{nm}() in expression position")

    def _body(self, stmts):
        out = []
        for st in stmts:
            if isinstance(st, ast.Expr) and isinstance(st.value, ast.Constant) and isinstance(st.value.value, str):
                continue  # docstring
            self.points += 1
            out.append(ast.Expr(ast.Yield(ast.Constant(getattr(st, "lineno", 0)))))
            out.append(self._stmt(st))
        return out or [ast.Pass()]

    def _stmt(self, st):
        if isinstance(st, ast.Expr):
            nm = _self_call(st.value)
            if nm in self.methods:
                call = st.value
                call.func.attr = nm + "_gen"
                for a in call.args:
                    self._check_expr(a)
                return ast.Expr(ast.YieldFrom(call))
            self._check_expr(st.value)
            return st
        if isinstance(st, (ast.Assign, ast.AugAssign, ast.AnnAssign, ast.Return, ast.Assert, ast.Raise, ast.Pass, ast.Break, ast.Continue, ast.Delete)):
            for sub in ast.iter_child_nodes(st):
                self._check_expr(sub)
            if isinstance(st, ast.AnnAssign) and st.value is None:
                return ast.Pass()
            return st
        if isinstance(st, (ast.For, ast.While)):
            self._check_expr(st.iter if isinstance(st, ast.For) else st.test)
            st.body = self._body(st.body)
            st.orelse = self._body(st.orelse) if st.orelse else []
            return st
        if isinstance(st, ast.If):
            self._check_expr(st.test)
            st.body = self._body(st.body)
            st.orelse = self._body(st.orelse) if st.orelse else []
            return st
        if isinstance(st, ast.With):
            st.body = self._body(st.body)
            return st
        if isinstance(st, ast.Try):
            st.body = self._body(st.body)
            for h in st.handlers:
                h.body = self._body(h.body)
            st.orelse = self._body(st.orelse) if st.orelse else []
            st.finalbody = self._body(st.finalbody) if st.finalbody else []
            return st
        raise Unsupported(f"statement form {type(st).__name__}")


def generatorize(cls, entry: str = "getRules"):
    """Return (namespace with <method>_gen functions bound for `cls`, report dict)."""
    import sys

    methods = reachable_methods(cls, entry)
    ns = dict(vars(sys.modules[cls.__module__]))
    report = {"methods": methods, "points": {}}
    srcs = {}
    for name in methods:
        fn = cls.__dict__[name]
        tree = ast.parse(textwrap.dedent(inspect.getsource(fn)))
        fdef = tree.body[0]
        y = _Yielder(methods)
        fdef.body = y._body(fdef.body)
        fdef.name = name + "_gen"
        fdef.decorator_list = []
        fdef.returns = None
        for a in fdef.args.args + fdef.args.kwonlyargs:
            a.annotation = None
        ast.fix_missing_locations(tree)
        code = compile(tree, f"<E3:{cls.__name__}.{name}>", "exec")
        exec(code, ns)
        report["points"][name] = y.points
        srcs[name] = ast.unparse(tree)
    gens = {name: ns[name + "_gen"] for name in methods}
    report["source"] = srcs
    return gens, report


def attach(cls, gens):
    """Make the generator versions callable as methods (self.<name>_gen) without touching the originals."""
    for name, fn in gens.items():
        setattr(cls, name + "_gen", fn)


def detach(cls, gens):
    for name in gens:
        if hasattr(cls, name + "_gen"):
            delattr(cls, name + "_gen")
