"""E2: direct SMT encoding generated from live objects of /repo.

* live `re.Pattern`s are translated to z3 regular expressions through `re._parser` (sre_parse);
* the AST of a small string-predicate function (normalize_url.validateLink) is re-read from the
  current source on every run and interpreted over z3 string terms.

Supported AST subset (anything else raises Unsupported -> the query is *inconclusive*, never a pass):
  `if <param> is not None: return ...`   (branch assumed not taken: parameter documented default None)
  `x = x.strip()` / `.lower()` chains, `return bool(P.search(x)) if Q.search(x) else True`,
  `return <bool expr>` with and/or/not, `P.search(x)`, `bool(...)`, constants.
`.strip()` is the identity on the query domain (checked: domain alphabet has no whitespace);
`.lower()` is pushed into the following regex match (lower(u) in L(R)  <=>  u in L(R_ci) for ASCII).
"""
from __future__ import annotations

import ast
import inspect
import re
import string
import subprocess
import tempfile
import textwrap
import time

import z3

try:
    import re._parser as sre_parse
    import re._constants as sre_c
except ImportError:  # pragma: no cover
    import sre_parse
    import sre_constants as sre_c


class Unsupported(Exception):
    pass


def _lit(ch: str, ci: bool):
    if ci and ch.isascii() and ch.isalpha():
        if ch.islower():
            return z3.Union(z3.Re(ch), z3.Re(ch.upper()))
        return z3.Empty(z3.ReSort(z3.StringSort()))  # an upper-case literal never matches a lowered string
    return z3.Re(ch)


def _seq(items, ci):
    parts = [_node(op, av, ci) for op, av in items]
    if not parts:
        return z3.Re("")
    if len(parts) == 1:
        return parts[0]
    return z3.Concat(*parts)


def _node(op, av, ci):
    if op is sre_c.LITERAL:
        return _lit(chr(av), ci)
    if op is sre_c.ANY:
        return z3.Complement(z3.Re("\n")) if False else z3.AllChar(z3.ReSort(z3.StringSort()))
    if op is sre_c.BRANCH:
        _, alts = av
        return z3.Union(*[_seq(a, ci) for a in alts]) if len(alts) > 1 else _seq(alts[0], ci)
    if op is sre_c.SUBPATTERN:
        return _seq(av[3], ci)
    if op is sre_c.IN:
        opts = []
        neg = False
        for o, a in av:
            if o is sre_c.NEGATE:
                neg = True
            elif o is sre_c.LITERAL:
                opts.append(_lit(chr(a), ci))
            elif o is sre_c.RANGE:
                lo, hi = a
                r = z3.Range(chr(lo), chr(hi))
                if ci:
                    # case-insensitive view of a range: add the other case of its ASCII letters
                    extra = [z3.Re(c.upper()) for c in map(chr, range(lo, hi + 1)) if c.isascii() and c.islower()]
                    r = z3.Union(r, *extra) if extra else r
                opts.append(r)
            else:
                raise Unsupported(f"class item {o}")
        u = z3.Union(*opts) if len(opts) > 1 else opts[0]
        if neg:
            u = z3.Intersect(z3.Complement(u), z3.AllChar(z3.ReSort(z3.StringSort())))
        return u
    if op in (sre_c.MAX_REPEAT, sre_c.MIN_REPEAT):
        lo, hi, sub = av
        r = _seq(sub, ci)
        if hi is sre_c.MAXREPEAT:
            return z3.Concat(*([r] * lo + [z3.Star(r)])) if lo else z3.Star(r)
        return z3.Loop(r, lo, hi)
    raise Unsupported(f"regex op {op}")


def pattern_search_re(pat: re.Pattern, ci: bool = False):
    """z3 regex R such that  pat.search(s) is not None  <=>  s in R   (flags: none or IGNORECASE)."""
    if pat.flags & ~(re.UNICODE | re.IGNORECASE):
        raise Unsupported(f"flags {pat.flags}")
    ci = ci or bool(pat.flags & re.IGNORECASE)
    if pat.flags & re.IGNORECASE:
        raise Unsupported("IGNORECASE patterns are not needed/translated")
    parsed = list(sre_parse.parse(pat.pattern, pat.flags))
    anchored = bool(parsed) and parsed[0][0] is sre_c.AT and parsed[0][1] is sre_c.AT_BEGINNING
    if anchored:
        parsed = parsed[1:]
    for op, av in parsed:
        if op is sre_c.AT:
            raise Unsupported("inner anchor")
    body = _seq(parsed, ci)
    allre = z3.Full(z3.ReSort(z3.StringSort()))
    return z3.Concat(body, allre) if anchored else z3.Concat(allre, body, allre)


class Term:
    """A z3 string term with a pending ASCII case fold."""

    def __init__(self, s, folded=False):
        self.s = s
        self.folded = folded


class FnTranslator:
    """Interpret a small string predicate over z3 terms.  globals_ = the function's module globals."""

    def __init__(self, fn, assume_none=()):
        self.fn = fn
        self.src = textwrap.dedent(inspect.getsource(fn))
        self.tree = ast.parse(self.src).body[0]
        self.g = fn.__globals__
        self.assume_none = set(assume_none)
        self.log = []

    def run(self, **args):
        env = dict(args)
        for a in self.tree.args.args:
            if a.arg not in env:
                if a.arg in self.assume_none:
                    env[a.arg] = None
                else:
                    raise Unsupported(f"argument {a.arg}")
        return self._block(self.tree.body, env)

    def _block(self, stmts, env):
        for st in stmts:
            if isinstance(st, ast.Expr) and isinstance(st.value, ast.Constant):
                continue  # docstring
            if isinstance(st, ast.If):
                t = st.test
                # `if <param> is not None:` with the parameter assumed None
                if (isinstance(t, ast.Compare) and isinstance(t.left, ast.Name) and len(t.ops) == 1
                        and isinstance(t.ops[0], ast.IsNot) and isinstance(t.comparators[0], ast.Constant)
                        and t.comparators[0].value is None and env.get(t.left.id, 0) is None):
                    self.log.append(f"branch `{ast.unparse(t)}` not taken ({t.left.id} assumed None)")
                    if st.orelse:
                        r = self._block(st.orelse, env)
                        if r is not None:
                            return r
                    continue
                raise Unsupported(f"if {ast.unparse(t)}")
            if isinstance(st, ast.Assign) and len(st.targets) == 1 and isinstance(st.targets[0], ast.Name):
                env[st.targets[0].id] = self._expr(st.value, env)
                continue
            if isinstance(st, ast.Return):
                return self._bool(st.value, env)
            raise Unsupported(f"statement {ast.unparse(st)[:60]}")
        return None

    def _expr(self, e, env):
        if isinstance(e, ast.Name):
            if e.id in env:
                return env[e.id]
            raise Unsupported(f"name {e.id}")
        if isinstance(e, ast.Call) and isinstance(e.func, ast.Attribute) and not e.args and not e.keywords:
            base = self._expr(e.func.value, env)
            if not isinstance(base, Term):
                raise Unsupported("method on non-string")
            if e.func.attr == "strip":
                self.log.append("`.strip()` = identity on the query domain (no whitespace in the alphabet)")
                return base
            if e.func.attr == "lower":
                self.log.append("`.lower()` pushed into the following regex matches (ASCII)")
                return Term(base.s, True)
        raise Unsupported(f"expression {ast.unparse(e)[:60]}")

    def _bool(self, e, env):
        if isinstance(e, ast.Constant) and isinstance(e.value, bool):
            return z3.BoolVal(e.value)
        if isinstance(e, ast.IfExp):
            c = self._bool(e.test, env)
            return z3.If(c, self._bool(e.body, env), self._bool(e.orelse, env))
        if isinstance(e, ast.BoolOp):
            vs = [self._bool(v, env) for v in e.values]
            return z3.And(*vs) if isinstance(e.op, ast.And) else z3.Or(*vs)
        if isinstance(e, ast.UnaryOp) and isinstance(e.op, ast.Not):
            return z3.Not(self._bool(e.operand, env))
        if isinstance(e, ast.Call) and isinstance(e.func, ast.Name) and e.func.id == "bool" and len(e.args) == 1:
            return self._bool(e.args[0], env)
        if (isinstance(e, ast.Call) and isinstance(e.func, ast.Attribute) and e.func.attr == "search"
                and isinstance(e.func.value, ast.Name) and len(e.args) == 1):
            pat = self.g.get(e.func.value.id)
            if not isinstance(pat, re.Pattern):
                raise Unsupported(f"{e.func.value.id} is not a compiled pattern")
            t = self._expr(e.args[0], env)
            self.log.append(f"{e.func.value.id} = {pat.pattern!r} (live object) -> z3 regex, case-folded={t.folded}")
            return z3.InRe(t.s, pattern_search_re(pat, ci=t.folded))
        raise Unsupported(f"boolean {ast.unparse(e)[:60]}")


def in_alphabet(s, alphabet: str):
    """s in alphabet*"""
    return z3.InRe(s, z3.Star(z3.Union(*[z3.Re(c) for c in alphabet])))


def solve(constraints, timeout_ms=60000, name="q"):
    """(verdict, model dict, seconds, smt2 text); verdict in sat/unsat/unknown."""
    s = z3.Solver()
    s.set(timeout=timeout_ms)
    for c in constraints:
        s.add(c)
    t = time.perf_counter()
    r = s.check()
    dt = time.perf_counter() - t
    model = {}
    if str(r) == "sat":
        m = s.model()
        for d in m.decls():
            v = m[d]
            model[d.name()] = v.as_string() if z3.is_string_value(v) else str(v)
    return str(r), model, dt, s.to_smt2()


def second_opinion(smt2: str, timeout_s=40) -> dict:
    """Run the dumped SMT-LIB2 query through independent solver builds: /usr/bin/z3 (4.8.12) and, best effort,
    the cvc5 binary.  Any '(error' makes that solver's answer 'error'.  Always under a hard timeout."""
    text = "(set-logic ALL)\n" + smt2
    out = {}
    with tempfile.NamedTemporaryFile("w", suffix=".smt2", delete=False) as f:
        f.write(text)
        fn = f.name
    try:
        for name, cmd, lim in (("z3-4.8.12", ["/usr/bin/z3", fn], timeout_s),
                               ("cvc5-1.0", ["cvc5", "--strings-exp", f"--tlimit={15000}", fn], 20)):
            try:
                p = subprocess.run(cmd, capture_output=True, text=True, timeout=lim)
                o = (p.stdout + p.stderr).strip()
                if "(error" in o:
                    out[name] = "error"
                else:
                    first = o.split()[0] if o else "unknown"
                    out[name] = first if first in ("sat", "unsat", "unknown") else "unknown"
            except subprocess.TimeoutExpired:
                out[name] = "timeout"
            except FileNotFoundError:
                out[name] = "absent"
    finally:
        import os

        os.unlink(fn)
    return out
