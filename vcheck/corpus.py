"""The repo's own fixture documents (read from /repo on every run): used for native oracle
calibration and for the NBR (symbolic neighbourhood) scaffold family."""
from __future__ import annotations

import json
import os

REPO = os.environ.get("VERIF_REPO", "/repo")


def fixtures() -> list[tuple[str, str, dict]]:
    """[(source-id, document, cfg)]"""
    from markdown_it.utils import read_fixture_file

    out = []
    fx = os.path.join(REPO, "tests", "test_port", "fixtures")
    cfgs = {
        "commonmark_spec.md": {"preset": "commonmark"},
        "commonmark_extras.md": {"preset": "commonmark"},
        "tables.md": {"preset": "commonmark", "enable": ["table"]},
        "strikethrough.md": {"preset": "commonmark", "enable": ["strikethrough"]},
        "issue-fixes.md": {"preset": "js-default"},
        "fatal.md": {"preset": "js-default"},
        "normalize.md": {"preset": "js-default"},
        "xss.md": {"preset": "js-default"},
        "proto.md": {"preset": "js-default"},
        "disable_code_block.md": {"preset": "commonmark", "enable": ["table"], "disable": ["code"]},
        "smartquotes.md": {"preset": "commonmark"},
        "typographer.md": {"preset": "commonmark"},
    }
    for fn, cfg in sorted(cfgs.items()):
        p = os.path.join(fx, fn)
        if not os.path.exists(p):
            continue
        try:
            for line, title, inp, exp in read_fixture_file(p):
                out.append((f"{fn}:{line}", inp, cfg))
        except Exception:
            continue
    spec = os.path.join(REPO, "tests", "test_cmark_spec", "commonmark.json")
    if os.path.exists(spec):
        for e in json.load(open(spec)):
            out.append((f"spec:{e['example']}", e["markdown"], {"preset": "commonmark"}))
    return out
