"""python -m vcheck.worker <job.json> <result.json>: run one job, then validate natively."""
from __future__ import annotations

import json
import os
import subprocess
import sys
import traceback


def main():
    jobf, resf = sys.argv[1], sys.argv[2]
    with open(jobf) as f:
        job = json.load(f)
    try:
        from . import props
        from .engine_ch import run_job

        h = props.get_harness(job["prop"], job["harness"])
        if getattr(h, "prepare", None):
            h.prepare(job.get("params", {}))
        res = run_job(job)
    except BaseException as e:  # noqa
        res = {"id": job.get("id"), "prop": job["prop"], "harness": job["harness"],
               "params": job.get("params", {}), "status": "HARNESS_ERROR",
               "messages": [{"state": "WORKER", "message": traceback.format_exc()[-3000:]}],
               "paths": [], "n_paths": 0, "choices": 0, "smt_checks": 0, "smt_time": 0, "cpu_s": 0,
               "wall_s": 0, "free": [], "functions": [], "confirmed_paths": 0}
    with open(resf, "w") as f:
        json.dump(res, f, default=str)
    if res["paths"]:
        subprocess.run([sys.executable, "-m", "vcheck.native", "validate", resf],
                       cwd=os.path.dirname(os.path.dirname(os.path.abspath(__file__))), check=False, env=dict(os.environ))


if __name__ == "__main__":
    main()
