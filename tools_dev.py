"""dev helper: run a subset of a property's jobs:  tools_dev.py C03 quick <substr-filter> [cpu_cap]"""
import json, sys, time, tempfile, os
sys.path.insert(0, '/verif')
from vcheck.runner import run_jobs
from vcheck import props
prop, tier, flt = sys.argv[1], sys.argv[2], sys.argv[3]
cap = int(sys.argv[4]) if len(sys.argv) > 4 else 300
mod = props.module(prop)
jobs = mod.jobs(tier, 0)
sel = []
for i, j in enumerate(jobs):
    j['prop'] = prop; j['id'] = f"{prop}-{j['harness']}-{i}"
    key = json.dumps(j)
    if flt == 'ALL' or flt in key:
        j['cpu_cap'] = cap; sel.append(j)
print(len(jobs), 'jobs; selected', len(sel))
os.makedirs('/verif/work', exist_ok=True)
d = tempfile.mkdtemp(dir='/verif/work')
t = time.time()
rs = run_jobs(sel, d, log=lambda s: None)
print('wall', round(time.time() - t, 1), 'cpu', round(sum(r['cpu_s'] for r in rs)))
for r in rs:
    p = r['params']
    print(r['id'], p.get('name') or p.get('shard') or '', p.get('cfg', {}).get('preset'), r['status'], 'paths', r['n_paths'], 'cpu', r['cpu_s'],
          'nat', r.get('native_validated'), 'mm', r.get('n_native_mismatches'))
    if r['status'] not in ('CONFIRMED',):
        print('   ', json.dumps(r['messages'])[:1500])
    seen = set()
    for q in r['paths']:
        for rec in q['records']:
            k = json.dumps(rec, sort_keys=True)
            if k not in seen and len(seen) < 6:
                seen.add(k); print('    REC', q['values'], rec)
    for m in r.get('native_mismatches', [])[:2]:
        print('    MM', json.dumps(m)[:600])
import shutil; shutil.rmtree(d, ignore_errors=True)
